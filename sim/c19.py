"""C19 engine — quantities work during static initialisation.

The *schedule* C19 quantifies over (which dynamic initialiser runs before which) is fixed at
compile and link time, so the simulator's scheduler is the real toolchain and the plan decides
every input to it: compiler, flags, translation-unit layout, packaging and link order.
Oracle: each probe's bytes evaluated before main == the same expression's bytes evaluated in
main (same process) == its bytes in a clean reference process in which nothing ran before main.
"""
import json, os, shutil, sys, time
from . import common
from .common import Rng, run, pmap, sha, log, VERIF, INCLUDE
from .catalogue import Catalogue, NUMERIC
from . import c19_gen as gen

PROP = "C19"
SIMDIR = os.path.dirname(os.path.abspath(__file__))
RUN_TIMEOUT = 60

CONFIGS_QUICK = [
    {"cxx": "g++", "opt": ["-O0"]}, {"cxx": "g++", "opt": ["-O2"]},
    {"cxx": "clang++", "opt": ["-O0"]}, {"cxx": "clang++", "opt": ["-O2"]},
]
CONFIGS_EXTRA = [
    {"cxx": "g++", "opt": ["-O2", "-flto"]}, {"cxx": "clang++", "opt": ["-O2", "-flto"]},
    {"cxx": "g++", "opt": ["-O0", "-fno-pie"], "ld": ["-no-pie"]}, {"cxx": "g++", "opt": ["-O2", "-fno-inline"]},
    {"cxx": "clang++", "opt": ["-O2", "-fno-pie"], "ld": ["-no-pie"]},
]


def cfg_name(cfg):
    return cfg["cxx"] + " " + " ".join(cfg["opt"])


def compiler_family(cfg):
    return "clang" if "clang" in cfg["cxx"] else "gcc"


class Toolchain:
    """content-addressed object cache + link + run inside one scratch directory"""

    def __init__(self, root):
        self.root = root
        import threading
        self._locks = {}
        self._locks_guard = threading.Lock()
        self.compiles = 0
        self.links = 0
        self.runs = 0
        os.makedirs(os.path.join(root, "src"), exist_ok=True)
        os.makedirs(os.path.join(root, "obj"), exist_ok=True)
        os.makedirs(os.path.join(root, "bin"), exist_ok=True)
        shutil.copy(os.path.join(SIMDIR, "c19_rt.hpp"), os.path.join(root, "src", "c19_rt.hpp"))

    def cflags(self, cfg, pic):
        # clang contracts a*b+c into llvm.fmuladd and constant-folds it as a true fused multiply-add when the operands are
        # literals, while the same expression on run-time operands is a separate multiply and add on x86-64: a last-bit
        # difference between a literal-operand object and its run-time twin that has nothing to do with initialisation.
        # GCC in ISO mode already has -ffp-contract=off; give clang the same so that both arithmetics agree.
        fp = ["-ffp-contract=off"] if "clang" in cfg["cxx"] else []
        return ["-std=c++17", "-I" + INCLUDE, "-I" + os.path.join(self.root, "src")] + cfg["opt"] + fp + (["-fPIC"] if pic else [])

    def compile(self, src_text, cfg, pic=False):
        key = sha(src_text + "\0" + cfg_name(cfg) + ("\0pic" if pic else ""))[:24]
        obj = os.path.join(self.root, "obj", key + ".o")
        if os.path.exists(obj):
            return obj, None
        with self._locks_guard:
            lock = self._locks.setdefault(key, __import__("threading").Lock())
        with lock:
            return self._compile_locked(key, obj, src_text, cfg, pic)

    def _compile_locked(self, key, obj, src_text, cfg, pic):
        if os.path.exists(obj):
            return obj, None
        src = os.path.join(self.root, "src", key + ".cpp")
        with open(src, "w", encoding="utf-8") as f:
            f.write(src_text)
        tmp = obj + ".tmp%d" % os.getpid()
        rc, out, err = run([cfg["cxx"]] + self.cflags(cfg, pic) + ["-c", src, "-o", tmp], timeout=1800)
        self.compiles += 1
        if rc != 0:
            return None, "compile failed (%s): %s\n%s" % (cfg_name(cfg), src, err.decode(errors="replace")[-4000:])
        os.replace(tmp, obj)
        return obj, None

    def link(self, cfg, link_items, tag):
        """link_items: list of object paths or ('so', name, [objs]) entries, in link-line order"""
        exe = os.path.join(self.root, "bin", tag)
        libdir = os.path.join(self.root, "bin")
        line = []
        for it in link_items:
            if isinstance(it, tuple):
                so = os.path.join(libdir, "lib%s_%s.so" % (it[1], tag))
                rc, out, err = run([cfg["cxx"]] + cfg["opt"] + ["-shared", "-o", so] + it[2], timeout=900)
                if rc != 0:
                    return None, "shared link failed: " + err.decode(errors="replace")[-3000:]
                line.append(so)
            else:
                line.append(it)
        rc, out, err = run([cfg["cxx"]] + cfg["opt"] + cfg.get("ld", []) + ["-o", exe] + line + ["-Wl,-rpath," + libdir], timeout=1800)
        self.links += 1
        if rc != 0:
            return None, "link failed (%s): %s" % (cfg_name(cfg), err.decode(errors="replace")[-3000:])
        return exe, None

    def execute(self, exe, skip=""):
        env = dict(os.environ)
        env["VERIF_SKIP"] = skip
        env["LC_ALL"] = "C"
        rc, out, err = run([exe], env=env, timeout=RUN_TIMEOUT)
        self.runs += 1
        return parse_run(rc, out, err)


def parse_run(rc, out, err):
    res = {"rc": rc, "probes": {}, "done": False, "in_flight": None, "reached_main": False, "stderr_tail": ""}
    for line in out.decode(errors="replace").splitlines():
        t = line.split(" ")
        if t[0] == "P" and len(t) == 6:
            res["probes"][int(t[1])] = {"st": int(t[2]), "pre": t[3], "mst": int(t[4]), "main": t[5]}
        elif t[0] == "DONE":
            res["done"] = True
    open_ids = []
    tail = []
    for line in err.decode(errors="replace").splitlines():
        if line.startswith("@B "):
            t = line[3:].split(" ")
            open_ids.append(int(t[0]))
            if len(t) > 1:
                res.setdefault("masks", {})[int(t[0])] = t[1]
        elif line.startswith("@E "):
            i = int(line[3:])
            if i in open_ids:
                open_ids.remove(i)
        elif line.startswith("@M"):
            res["reached_main"] = True
        else:
            tail.append(line)
    res["in_flight"] = open_ids[-1] if open_ids else None
    res["stderr_tail"] = "\n".join(tail[-6:])[:600]
    return res


def unhex(h):
    if h == "-":
        return ""
    try:
        return bytes.fromhex(h).decode("utf-8", errors="backslashreplace")
    except ValueError:
        return "<bad hex>"


# ------------------------------------------------------------------------------- program building
def observer_source(cat, fam):
    """the only code that names Internal:: tables; emitted only if those names still exist in the tree"""
    import re as _re
    from .catalogue import _read, PHQ
    base = _read(os.path.join(PHQ, "Base.hpp")) + _read(os.path.join(PHQ, "UnitSystem.hpp"))
    names = [n for n in ("Abbreviations", "Spellings", "ConsistentUnits", "RelatedUnitSystems") if _re.search(r"\b%s\b" % n, base) and "namespace Internal" in base]
    if not names:
        return None, []
    o = ["// generated observer: linked last, touches nothing before its own (last) initialiser"]
    for U, d in cat.units.items():
        o.append("#include <%s>" % d["header"])
    o.append("#include <cstddef>")
    o.append("static char z(const void* p, std::size_t n) { const volatile unsigned char* b = static_cast<const volatile unsigned char*>(p); "
             "for (std::size_t i = 0; i < n; ++i) if (b[i]) return '1'; return '0'; }")
    o.append('extern "C" int vrt_observe(char* out, int cap) {\n  int k = 0;')
    labels = []
    for U in cat.units:
        for n in names:
            o.append("  if (k < cap) out[k++] = z(&PhQ::Internal::%s<PhQ::Unit::%s>, sizeof(PhQ::Internal::%s<PhQ::Unit::%s>));" % (n, U, n, U))
            labels.append("%s<%s>" % (n, U))
    for n in ("Abbreviations", "Spellings"):
        if n in names:
            o.append("  if (k < cap) out[k++] = z(&PhQ::Internal::%s<PhQ::UnitSystem>, sizeof(PhQ::Internal::%s<PhQ::UnitSystem>));" % (n, n))
            labels.append("%s<UnitSystem>" % n)
    o.append("  return k;\n}")
    return "\n".join(o) + "\n", labels


def render_program(program, cfg):
    """returns {tu name: source text} for this compiler (model probes are GCC-only: clang 14
    rejects ConstitutiveModel/*.hpp irrespective of any schedule)"""
    fam = compiler_family(cfg)
    out = {}
    for tu in program["tus"]:
        t = dict(tu)
        if fam == "clang":
            t["items"] = [it for it in tu["items"] if not it.get("gcc_only")]
            keep = set(h for it in t["items"] for h in it.get("needs", []))
            t["includes"] = [h for h in tu["includes"] if "ConstitutiveModel" not in h or h in keep]
        out[tu["name"]] = gen.render_tu(t)
    out["main"] = gen.MAIN_CPP
    return out


def without_item(program, pid):
    pid = pid - gen.TWIN if pid >= gen.TWIN else pid
    return {"label": program["label"],
            "tus": [dict(t, items=[it for it in t["items"] if it.get("id") != pid]) for t in program["tus"]]}


def build_and_run(tc, program, schedule, depth=0):
    """one simulated run = one (program, schedule): compile (cached), link in the given order, run
    the clean reference process and the real process, attribute pre-main crashes.
    returns dict(failures=[...], infra=None|str, observed=int, skipped_after_crash=[...])"""
    cfg = schedule["cfg"]
    pack = schedule.get("packaging", "objects")
    srcs = render_program(program, cfg)
    roles = {tu["name"]: tu["role"] for tu in program["tus"]}
    roles["main"] = "main"
    shared_role = {"bystanders-shared": "bystander", "users-shared": "user"}.get(pack)
    objs = {}
    for name in schedule["order"]:
        pic = shared_role is not None and roles[name] == shared_role
        o, e = tc.compile(srcs[name], cfg, pic)
        if e:
            return {"failures": [], "infra": e, "observed": 0}
        objs[name] = o
    line = []
    so_objs = [objs[n] for n in schedule["order"] if roles[n] == shared_role] if shared_role else []
    placed = False
    for n in schedule["order"]:
        if shared_role and roles[n] == shared_role:
            if not placed:
                line.append(("so", shared_role, so_objs))
                placed = True
        else:
            line.append(objs[n])
    obs_src = schedule.get("observer_src") or getattr(tc, "observer_src", None)
    use_obs = bool(schedule.get("observer")) and obs_src is not None and pack == "objects"
    if use_obs:
        o, e = tc.compile(obs_src, cfg, False)
        if e:
            return {"failures": [], "infra": "observer: " + e, "observed": 0}
        line.append(o)   # always last: its initialiser runs after everyone else's
    tag = sha(json.dumps([cfg_name(cfg), pack, use_obs, [objs[n] for n in schedule["order"]]]))[:20]
    exe, e = tc.link(cfg, line, tag)
    if e:
        return {"failures": [], "infra": e, "observed": 0}
    items = {it["id"]: dict(it, home=tu["name"]) for tu in program["tus"] if tu["role"] == "user" for it in tu["items"] if "id" in it}
    for it in list(items.values()):
        if it.get("form") == "wrapped" and it.get("twin"):
            items[it["id"] + gen.TWIN] = dict(it, id=it["id"] + gen.TWIN, form="wrapped", twin_of=it["id"], note=it.get("note", "") + " [from %s]" % ("inline variable" if it["twin"] == "inline" else "static inline data member"))
    ref = tc.execute(exe, "all")
    if not ref["done"]:
        lit = ref["in_flight"]
        if lit is not None and lit in items and not ref["reached_main"]:
            # a literal-form object (cannot be skipped at run time) died before main: report it, then
            # rebuild the program without it so that the remaining probes are still observed
            f = mk_failure(items[lit], "hang" if ref["rc"] is None else "crash:%s" % sig(ref["rc"]), ref, schedule)
            if depth < 3:
                rest = build_and_run(tc, without_item(program, lit), schedule, depth + 1)
                rest["failures"] = [f] + rest["failures"]
                return rest
            return {"failures": [f], "infra": None, "observed": 0}
        return {"failures": [], "infra": "reference process (nothing evaluated before main) did not finish: rc=%s %s" % (ref["rc"], ref["stderr_tail"]), "observed": 0}
    failures = []
    skip = []
    res = None
    for _ in range(40):
        res = tc.execute(exe, ",".join(str(i) for i in skip))
        if res["done"]:
            break
        pid = res["in_flight"]
        if pid is None or pid in skip or pid not in items or res["reached_main"]:
            if res["reached_main"]:
                # crash inside main after a pre-main evaluation: sticky damage done before main
                failures.append({"probe": None, "class": "crash-in-main-after-premain:%s" % sig(res["rc"]), "facility": "unknown",
                                 "kind": "unknown", "compiler": compiler_family(cfg), "detail": res["stderr_tail"], "schedule": schedule})
                return {"failures": failures, "infra": None, "observed": len(res["probes"])}
            return {"failures": failures, "infra": "process died before main with no probe in flight: rc=%s %s" % (res["rc"], res["stderr_tail"]), "observed": 0}
        cls = "hang" if res["rc"] is None else "crash:%s" % sig(res["rc"])
        failures.append(mk_failure(items[pid], cls, res, schedule))
        if items[pid]["form"] != "wrapped":
            if depth < 3:
                rest = build_and_run(tc, without_item(program, pid), schedule, depth + 1)
                rest["failures"] = failures + rest["failures"]
                return rest
            return {"failures": failures, "infra": None, "observed": 0}
        skip.append(pid)
    observed = 0
    for pid, p in sorted(res["probes"].items()):
        it = items.get(pid)
        if it is None or pid in skip:
            continue
        observed += 1
        r = ref["probes"].get(pid)
        if p["st"] == 1:
            failures.append(mk_failure(it, "exception:%s" % unhex(p["pre"]), res, schedule))
        elif p["st"] == 0 and (p["mst"] != 0 or p["pre"] != p["main"]):
            failures.append(mk_failure(it, "mismatch", res, schedule, pre=p["pre"], main=p["main"]))
        elif p["st"] == 0 and r is not None and (r["mst"] != 0 or r["main"] != p["pre"]):
            failures.append(mk_failure(it, "mismatch-vs-clean-main", res, schedule, pre=p["pre"], main=r["main"]))
    return {"failures": failures, "infra": None, "observed": observed, "skipped": skip, "masks": res.get("masks", {}),
            "outcome": sorted((pid, p["st"], p["pre"]) for pid, p in res["probes"].items())}


def sig(rc):
    if rc is None:
        return "timeout"
    if rc < 0:
        import signal
        try:
            return signal.Signals(-rc).name
        except ValueError:
            return "SIG%d" % -rc
    return "exit%d" % rc


def mk_failure(it, cls, res, schedule, pre=None, main=None):
    f = {"home": it.get("home"), "probe": it["id"], "class": cls, "facility": it.get("facility", "unknown"), "kind": it.get("kind", "unknown"),
         "form": it.get("form"), "note": it.get("note", ""), "compiler": compiler_family(schedule["cfg"]),
         "detail": res.get("stderr_tail", ""), "schedule": schedule}
    if pre is not None:
        f["pre"] = unhex(pre)[:200]
        f["main"] = unhex(main)[:200]
    return f


def vclass(f):
    """violation class used for grouping, minimisation and known-finding matching"""
    c = f["class"].split(":")[0]
    fac = "public-api-call" if f.get("kind") == "api" else f["facility"]
    cfg = f.get("schedule", {}).get("cfg")
    lto = isinstance(cfg, dict) and "-flto" in cfg.get("opt", [])
    order = [n for n in f.get("schedule", {}).get("order", []) if n != "main"]
    pos = "+user-tu-not-first" if (f.get("home") is not None and order and order[0] != f.get("home")) else ""
    return (f["compiler"] + ("+lto" + pos if lto else ""), fac, c)


# ------------------------------------------------------------------------------- plan generation
def ordered_includes(items, rng, extra=()):
    hs = []
    for it in items:
        for h in it.get("needs", []):
            if h not in hs:
                hs.append(h)
    for h in extra:
        if h not in hs:
            hs.append(h)
    return rng.shuffle(hs)


def covering_programs(cat, rng, groups):
    """single-user-TU programs that together probe every table of every unit type, every numeric type"""
    units = rng.shuffle(sorted(cat.units))
    progs = []
    pid = [1]
    for g in range(groups):
        us = units[g::groups]
        if not us:
            continue
        pg = gen.ProbeGen(cat, rng)
        items = []
        for U in us:
            for p in pg.covering(U):
                items.append(gen.as_item(p, pid[0], rng))
                pid[0] += 1
        for _ in range(4):
            items.append(gen.as_item(pg.misc(), pid[0], rng)); pid[0] += 1
        for _ in range(10):
            items.append(gen.as_item(pg.const_literal(), pid[0], rng)); pid[0] += 1
        if g == 0:
            for _ in range(6):
                items.append(gen.as_item(pg.system(), pid[0], rng)); pid[0] += 1
            if cat.models and "Pressure" in cat.units:
                for _ in range(6):
                    it = gen.as_item(pg.model(), pid[0], rng); it["gcc_only"] = True
                    items.append(it); pid[0] += 1
        items = rng.shuffle(items)
        tu = {"name": "u0", "role": "user", "includes": ordered_includes(items, rng), "items": items}
        progs.append({"label": "cover-%d:%s" % (g, ",".join(us)), "tus": [tu]})
    return progs


def seeded_program(cat, rng, idx, max_probes=24):
    """multi-TU program: 1-4 user TUs, 0-3 bystanders, seeded include subsets and orders"""
    pg = gen.ProbeGen(cat, rng)
    nunits = rng.rng(1, 3)
    us = rng.sample(sorted(cat.units), nunits)
    nuser = rng.rng(1, 4)
    nby = rng.rng(0, 3)
    tus = []
    pid = 1
    all_headers = sorted({cat.units[u]["header"] for u in us} | {q["header"] for u in us for q in cat.quantities_of_unit(u)})
    for k in range(nuser):
        items = []
        # neighbour code before the probes: ordinary functions that use the same tables (this is
        # what moves GCC's point of instantiation, hence its initialisation order)
        if rng.chance(0.4):
            for _ in range(rng.rng(1, 3)):
                p = pg.random_probe(rng.choice(us))
                items.append({"form": "neighbour", "needs": p["needs"], "kind": p["kind"],
                              "code": "[[maybe_unused]] __attribute__((used)) std::string neighbour_%d_%d() { %s }" % (k, len(items), p["body"])})
        for _ in range(rng.rng(2, max_probes // nuser + 2)):
            w = rng.below(20)
            if w == 0:
                p = pg.system()
            elif w == 2:
                p = pg.misc()
            elif w == 3:
                p = pg.const_literal()
            elif w == 1 and cat.models and "Pressure" in cat.units:
                p = pg.model(); p["gcc_only"] = True
            else:
                p = pg.random_probe(rng.choice(us))
            items.append(gen.as_item(p, pid, rng)); pid += 1
        extra = rng.sample(all_headers, rng.rng(0, 3))
        tus.append({"name": "u%d" % k, "role": "user", "includes": ordered_includes(items, rng, extra), "items": items})
    for k in range(nby):
        items = []
        for _ in range(rng.rng(1, 6)):
            p = pg.random_probe(rng.choice(us))
            it = dict(p); it["id"] = pid; it["form"] = "bystander"; pid += 1
            items.append(it)
        tus.append({"name": "b%d" % k, "role": "bystander", "includes": ordered_includes(items, rng, rng.sample(all_headers, rng.rng(0, 2))), "items": items})
    return {"label": "seeded-%d:%s" % (idx, ",".join(us)), "tus": tus}


def link_orders(program, rng, limit):
    names = [t["name"] for t in program["tus"]]
    users = [t["name"] for t in program["tus"] if t["role"] == "user"]
    bys = [t["name"] for t in program["tus"] if t["role"] == "bystander"]
    orders = []

    def add(o):
        if o not in orders:
            orders.append(o)
    # adversarial orders first: each user TU is the first PhQ-including object on the line
    for u in users:
        rest = [n for n in names if n != u]
        add([u] + rng.shuffle(rest) + ["main"])
        add(["main", u] + rng.shuffle(rest))
    add(bys + users + ["main"])
    tries = 0
    while len(orders) < limit and tries < 4 * limit:
        add(rng.shuffle(names + ["main"])); tries += 1
    return orders[:limit]


# ------------------------------------------------------------------------------- minimisation
def reproduces(tc, program, schedule, target):
    r = build_and_run(tc, program, schedule)
    if r["infra"]:
        return False
    for f in r["failures"]:
        if vclass(f) == vclass(target) and (target["probe"] is None or f["probe"] == target["probe"]):
            return True
    return False


def minimise(tc, program, failure, budget=40):
    """shrink (program, schedule) while the same violation class at the same probe persists"""
    sched = dict(failure["schedule"])
    used = [0]

    def ok(p, s):
        if used[0] >= budget:
            return False
        used[0] += 1
        return reproduces(tc, p, s, failure)
    pid = failure["probe"]
    if pid is not None and pid >= gen.TWIN:
        pid -= gen.TWIN
    home = None
    for tu in program["tus"]:
        if any(it.get("id") == pid for it in tu["items"]):
            home = tu["name"]
    best_p, best_s = program, sched
    if sched.get("observer"):
        # the observer TU (links every unit header, last) is itself a bystander: keep it only if the failure needs it
        cand = dict(sched, observer=False)
        if ok(program, cand):
            best_s = sched = cand
        else:
            best_s = sched = dict(sched, observer_src=getattr(tc, "observer_src", None))
    if home is None:
        return best_p, best_s, used[0]
    # 1. drop every TU but the failing one and main, keeping their relative order
    others = [n for n in sched["order"] if n not in (home, "main")]
    keep, _ = common.ddmin(others, lambda sub: ok(
        {"label": program["label"], "tus": [t for t in program["tus"] if t["name"] == home or t["name"] in sub]},
        dict(sched, order=[n for n in sched["order"] if n in (home, "main") or n in sub],
             packaging=sched.get("packaging", "objects") if sub else "objects")), budget=12) if others else ([], 0)
    if others and len(keep) < len(others):
        cand_p = {"label": program["label"], "tus": [t for t in program["tus"] if t["name"] == home or t["name"] in keep]}
        cand_s = dict(sched, order=[n for n in sched["order"] if n in (home, "main") or n in keep])
        if not keep:
            cand_s["packaging"] = "objects" if sched.get("packaging") == "bystanders-shared" else sched.get("packaging", "objects")
        if ok(cand_p, cand_s):
            best_p, best_s = cand_p, cand_s
    # 2. drop every other item of the failing TU, and includes no surviving item needs
    def with_items(p, items):
        tus = []
        for t in p["tus"]:
            if t["name"] == home:
                needs = [h for it in items for h in it.get("needs", [])]
                inc = [h for h in t["includes"] if h in needs] or t["includes"]
                tus.append(dict(t, items=items, includes=inc))
            else:
                tus.append(t)
        return {"label": p["label"], "tus": tus}
    home_tu = [t for t in best_p["tus"] if t["name"] == home][0]
    target_item = [it for it in home_tu["items"] if it.get("id") == pid]
    cand = with_items(best_p, target_item)
    if ok(cand, best_s):
        best_p = cand
    else:
        rest = [it for it in home_tu["items"] if it.get("id") != pid]
        keep, _ = common.ddmin(rest, lambda sub: ok(with_items(best_p, [it for it in home_tu["items"] if it.get("id") == pid or it in sub]), best_s), budget=10)
        cand = with_items(best_p, [it for it in home_tu["items"] if it.get("id") == pid or it in keep])
        if ok(cand, best_s):
            best_p = cand
    return best_p, best_s, used[0]


# ------------------------------------------------------------------------------- batch driver
def known_match(f):
    sch = f.get("schedule", {})
    cfg = sch.get("cfg")
    opts = " ".join(cfg["opt"]) if isinstance(cfg, dict) else str(cfg or "")
    order = [n for n in sch.get("order", []) if n != "main"]
    home = f.get("home")
    for k in common.known_findings(PROP):
        if k.get("compiler") not in (None, f["compiler"]):
            continue
        if "flags" in k and k["flags"] not in opts.split():
            continue
        if k.get("position") == "user-tu-not-first" and not (home is not None and order and order[0] != home):
            continue
        if k.get("facility") not in (None, f["facility"]):
            continue
        if k.get("class") not in (None, f["class"].split(":")[0]):
            continue
        return k
    return None


def write_replay(seed, program, schedule, failure, n):
    path = os.path.join(common.replay_dir(), "C19-%d-%d.json" % (seed, n))
    f = {k: v for k, v in failure.items() if k != "schedule"}
    with open(path, "w", encoding="utf-8") as fh:
        json.dump({"property": PROP, "seed": seed, "violation": f, "schedule": schedule, "program": program,
                   "repo": common.repo_state(),
                   "how_to_replay": "./check C19 --replay <this file>  (rebuilds the program from /repo's current tree under exactly this schedule)"},
                  fh, indent=1, ensure_ascii=False)
        fh.write("\n")
    return path


def replay_api(plan, path, quiet):
    want = plan["violation"]
    sch = plan["schedule"]
    seed_ = int(str(sch.get("salt") or "1").split(".")[0])
    r = api_sweep(seed_, False, only=plan.get("only"), cfg_filter=sch["cfg"]) if plan.get("only") else \
        api_sweep(seed_, plan.get("thorough", False), cfg_filter=sch["cfg"])
    if r["infra"]:
        if not quiet:
            log("replay: infrastructure problem: " + r["infra"])
        return 2
    for f in r["failures"]:
        if f["class"].split(":")[0] == want["class"].split(":")[0] and f["note"].split(" [")[0] == want["note"].split(" [")[0] and f.get("form") == want.get("form"):
            if not quiet:
                log("replay: reproduced %s before main in %s (%s, link %s)" % (f["class"], f["note"], sch["cfg"], f["schedule"]["link"]))
                log("VIOLATION property=%s replay=%s" % (PROP, path))
            return 1
    if not quiet:
        log("replay: violation not reproduced on the current tree")
    return 0


def replay(path, quiet=False):
    with open(path, encoding="utf-8") as fh:
        plan = json.load(fh)
    if plan.get("kind") == "api-sweep":
        return replay_api(plan, path, quiet)
    tc = Toolchain(common.scratch("c19r"))
    r = build_and_run(tc, plan["program"], plan["schedule"])
    if r["infra"]:
        if not quiet:
            log("replay: infrastructure problem: " + r["infra"])
        return 2
    want = plan["violation"]
    for f in r["failures"]:
        if vclass(f) == vclass(want) and (want.get("probe") is None or f["probe"] == want["probe"]):
            if not quiet:
                log("replay: reproduced %s at probe %s (%s, %s) under %s order=%s" % (
                    f["class"], f["probe"], f["facility"], f.get("note", ""), cfg_name(plan["schedule"]["cfg"]), plan["schedule"]["order"]))
                if "pre" in f:
                    log("  before main: %r\n  inside main: %r" % (f["pre"], f["main"]))
                if f.get("detail"):
                    log("  stderr: " + f["detail"].replace("\n", " | "))
                log("VIOLATION property=%s replay=%s" % (PROP, path))
            return 1
    if not quiet:
        log("replay: violation not reproduced on the current tree (%d other failures)" % len(r["failures"]))
    return 0


def gate(path):
    """fresh-process replay, twice; both must reproduce"""
    for _ in range(2):
        rc, out, err = run([sys.executable, os.path.join(VERIF, "check"), PROP, "--replay", path, "--quiet"], timeout=3600)
        if rc != 1:
            return False
    return True


def main(tier, seed, only=None):
    t0 = time.time()
    cat = Catalogue()
    rng = Rng(common.run_seed(seed, 0))
    thorough = tier == "thorough"
    log("C19 tier=%s VERIF_SEED=%d catalogue=%s" % (tier, seed, json.dumps(cat.summary())))
    tc = Toolchain(common.scratch("c19"))
    import threading
    api_box = {}
    api_thread = None
    if os.environ.get("VERIF_C19_API", "1") != "0":
        api_thread = threading.Thread(target=lambda: api_box.update(api_sweep(seed, thorough)))
        api_thread.start()
    configs = CONFIGS_QUICK + (CONFIGS_EXTRA if thorough else CONFIGS_EXTRA[:2])   # quick: the two LTO configurations, on 3 seeded programs
    if os.environ.get("VERIF_C19_CONFIGS"):   # tooling only: restrict to the named configurations, e.g. "clang++ -O2 -flto"
        want = [w.strip() for w in os.environ["VERIF_C19_CONFIGS"].split(",")]
        configs = [c for c in CONFIGS_QUICK + CONFIGS_EXTRA if cfg_name(c) in want]
    cond = cat.conditional_build_flags()
    if cond["flags"]:
        # conditionally compiled code in the headers (#if __AVX__, NDEBUG, a library switch ...): also build with the conditions ON
        configs = configs + [{"cxx": "g++", "opt": ["-O2"] + cond["flags"]}, {"cxx": "clang++", "opt": ["-O0"] + cond["flags"]}]
        log("conditional code found in the headers (%s): extra configurations with %s" % (", ".join(cond["macros"]), " ".join(cond["flags"])))
    configs = [c for c in configs if shutil.which(c["cxx"])]
    groups = int(os.environ.get("VERIF_C19_GROUPS", "16"))
    programs = covering_programs(cat, rng, groups)
    nseeded = int(os.environ.get("VERIF_C19_PROGRAMS", "40" if thorough else "8"))
    ncover = len(programs)
    for i in range(nseeded):
        programs.append(seeded_program(cat, Rng(common.run_seed(seed, i + 1)), i))
    # one program built to meet the recorded clang-LTO finding (KNOWN_FINDINGS.txt): a bystander that includes other
    # PhQ headers linked before the user's TU; LTO configurations only
    lrng = Rng(common.run_seed(seed, 777))
    lpg = gen.ProbeGen(cat, lrng)
    lunits = lrng.sample(sorted(cat.units), 3)
    litems = [gen.as_item(p_, i_ + 1, lrng, allow_literal=False) for i_, p_ in enumerate(lpg.covering(lunits[0])[:14])]
    bit = dict(lpg.random_probe(lunits[1], ["print-unit", "convert", "abbr"]), id=900, form="bystander")
    programs.append({"label": "lto-probe:%s|%s" % (lunits[0], lunits[1]),
                     "tus": [{"name": "u0", "role": "user", "includes": ordered_includes(litems, lrng), "items": litems},
                             {"name": "b0", "role": "bystander", "includes": ordered_includes([bit], lrng), "items": [bit]}]})
    lto_index = len(programs) - 1
    # minimal includes: a user TU that includes only the header declaring what it uses (the model-type enumeration with its
    # names and spellings; the unit systems; one unit type) while a bystander TU elsewhere in the program includes the
    # concrete-model headers and every unit header -- content that reaches a table from *other* headers (registration
    # objects) arrives before or after the user's objects depending on the link order.  g++ only (clang cannot compile the models).
    min_index = None
    if cat.models and cat.model_types and "Pressure" in cat.units:
        mrng = Rng(common.run_seed(seed, 778))
        mpg = gen.ProbeGen(cat, mrng)
        mitems, mid = [], 1
        for t_ in cat.model_types:
            mitems.append(gen.as_item(mpg.model(0, t_), mid, mrng, allow_literal=False)); mid += 1
        for l_ in cat.model_literals:
            mitems.append(gen.as_item(mpg.model(1, l_), mid, mrng, allow_literal=False)); mid += 1
        for _ in range(4):
            mitems.append(gen.as_item(mpg.system(), mid, mrng, allow_literal=False)); mid += 1
        munit = mrng.choice(sorted(cat.units))
        for p_ in mpg.covering(munit)[:6]:
            mitems.append(gen.as_item(p_, mid, mrng, allow_literal=False)); mid += 1
        for it_ in mitems:
            it_["gcc_only"] = True
        bys = [dict(mpg.model(2), id=901, form="bystander"), dict(mpg.model(3), id=902, form="bystander")]
        all_unit_headers = sorted(d["header"] for d in cat.units.values())
        model_headers = ["PhQ/ConstitutiveModel/%s.hpp" % m_ for m_ in cat.models]
        programs.append({"label": "minimal-includes:%s" % munit,
                         "tus": [{"name": "u0", "role": "user", "includes": ordered_includes(mitems, mrng), "items": mitems},
                                 {"name": "b0", "role": "bystander", "includes": ordered_includes(bys, mrng, model_headers + all_unit_headers), "items": bys}]})
        min_index = len(programs) - 1
    # schedules
    jobs = []
    for pi, p in enumerate(programs):
        prng = Rng(common.run_seed(seed, 1000 + pi))
        cover = p["label"].startswith("cover")
        if pi == lto_index:
            for cfg in configs:
                if "-flto" in cfg["opt"]:
                    for o in (["b0", "u0", "main"], ["u0", "b0", "main"], ["main", "b0", "u0"]):
                        jobs.append((pi, {"cfg": cfg, "packaging": "objects", "order": o}))
            continue
        if pi == min_index:
            for cfg in configs:
                if compiler_family(cfg) == "gcc" and "-flto" not in cfg["opt"]:
                    for o in (["u0", "b0", "main"], ["b0", "u0", "main"], ["main", "u0", "b0"]):
                        jobs.append((pi, {"cfg": cfg, "packaging": "objects", "order": o}))
            continue
        orders = [["u0", "main"], ["main", "u0"]] if cover else link_orders(p, prng, 16 if thorough else 6)
        has_by = any(t["role"] == "bystander" for t in p["tus"])
        for cfg in configs:
            if cover and cfg not in CONFIGS_QUICK and not thorough and cfg in CONFIGS_EXTRA:
                continue
            if not cover and cfg in CONFIGS_EXTRA and (pi % 3 != 0 if thorough else (pi - ncover) >= 3):
                continue    # the extra configurations (LTO, no-PIE, no-inline) take a third of the seeded programs (quick: LTO on three)
            for o in orders:
                jobs.append((pi, {"cfg": cfg, "packaging": "objects", "order": o}))
            if (thorough or pi % 4 == 0) and not cover:
                if has_by:
                    jobs.append((pi, {"cfg": cfg, "packaging": "bystanders-shared", "order": orders[0]}))
                jobs.append((pi, {"cfg": cfg, "packaging": "users-shared", "order": orders[0]}))
            if cover and ((thorough and cfg in CONFIGS_QUICK) or (pi % 4 == 0 and cfg in (CONFIGS_QUICK[0], CONFIGS_QUICK[3]))):
                jobs.append((pi, {"cfg": cfg, "packaging": "users-shared", "order": ["u0", "main"]}))
    obs_src, obs_labels = observer_source(cat, "gcc")
    tc.observer_src = obs_src
    if obs_src:
        for (pi, sch) in jobs:
            if sch["packaging"] == "objects":
                sch["observer"] = True
    log("programs=%d (covering=%d seeded=%d) configs=%d schedules=%d" % (
        len(programs), ncover, nseeded, len(configs), len(jobs)))
    # phase 1: compile every distinct (TU, config) once, in parallel (the expensive part).  A probe that the
    # library cannot compile for this numeric type (compile-time defects such as Time<float>::Create are outside
    # C19) is dropped and counted, never reported.
    import re as _re
    dropped_probes = []
    for rnd in range(8):
        pre = {}
        owner = {}
        for pi, s in jobs:
            srcs = render_program(programs[pi], s["cfg"])
            roles = {t["name"]: t["role"] for t in programs[pi]["tus"]}
            shared_role = {"bystanders-shared": "bystander", "users-shared": "user"}.get(s["packaging"])
            for n, text in srcs.items():
                pic = shared_role is not None and roles.get(n) == shared_role
                pre[(sha(text), cfg_name(s["cfg"]), pic)] = (text, s["cfg"], pic)
                owner[sha(text + "\0" + cfg_name(s["cfg"]) + ("\0pic" if pic else ""))[:24]] = (pi, text)
        if obs_src:
            for cfg in configs:
                pre[(sha(obs_src), cfg_name(cfg), False)] = (obs_src, cfg, False)
        if rnd == 0:
            log("compiling %d objects on %d cores ..." % (len(pre), common.NCPU))
        work = sorted(pre.values(), key=lambda w: -len(w[0]))
        outs = pmap(lambda w: tc.compile(*w), work)
        if obs_src and any(e for w, (_, e) in zip(work, outs) if e and w[0] is obs_src):
            # the observer is the only code that names Internal:: tables; if a refactor of those internals stops it from
            # compiling, the schedule measure falls back to outcome vectors -- never an error
            log("observer disabled: it no longer compiles against this tree (internals renamed or retyped)")
            obs_src = None
            tc.observer_src = None
            for (_, sch) in jobs:
                sch.pop("observer", None)
        errs = [e for w, (_, e) in zip(work, outs) if e and not (w[0] is not None and tc.observer_src is None and "vrt_observe" in w[0])]
        if not errs:
            break
        progress = False
        for e in errs:
            m = _re.search(r"src/(\w{24})\.cpp", e)
            if not m or m.group(1) not in owner:
                continue
            pi, text = owner[m.group(1)]
            lines = text.split("\n")
            for lm in _re.finditer(r"%s\.cpp:(\d+):\d+:\s+(?:required from here|error)" % m.group(1), e):
                ln = min(int(lm.group(1)) - 1, len(lines) - 1)
                for back in range(ln, -1, -1):
                    fm = _re.search(r"probe_fn_(\d+)\(\)|bystander_\w+?_(\d+)\(\)", lines[back])
                    if fm:
                        pid_ = int(fm.group(1) or fm.group(2))
                        if (pi, pid_) not in dropped_probes:
                            dropped_probes.append((pi, pid_))
                            programs[pi] = without_item(programs[pi], pid_)
                            progress = True
                        break
        if not progress:
            log("INFRASTRUCTURE: the generated harness does not compile against the current tree:\n" + errs[0])
            return 2
    else:
        log("INFRASTRUCTURE: generated programs still do not compile after dropping %d probes" % len(dropped_probes))
        return 2
    if dropped_probes:
        log("dropped %d probes the library cannot compile (compile-time defects outside C19)" % len(dropped_probes))
    log("compiled in %.0fs; linking and running %d schedules ..." % (time.time() - t0, len(jobs)))
    results = pmap(lambda j: build_and_run(tc, programs[j[0]], j[1]), jobs)
    infra = [r["infra"] for r in results if r["infra"]]
    if api_thread is not None:
        api_thread.join()
        if api_box.get("infra"):
            infra.append(api_box["infra"])
    if infra:
        # what could be run is still evaluated: a violation found there is reported; with none found the verdict is "cannot tell" (exit 2)
        log("INFRASTRUCTURE: %d schedules could not be run; first: %s" % (len(infra), infra[0][:3000]))
    if api_box.get("stats"):
        log("API sweep: %s" % json.dumps(api_box["stats"]))
    # ---- statistics
    failures = []
    observed = 0
    sched_keys = set()
    nontrivial = set()
    kinds = {}
    mask_states = set()
    masks_seen = set()
    for (pi, s), r in zip(jobs, results):
        items_kind = {it["id"]: it.get("kind") for t in programs[pi]["tus"] for it in t["items"] if "id" in it}
        for pid_, m_ in r.get("masks", {}).items():
            masks_seen.add(m_)
            mask_states.add((items_kind.get(pid_), m_))
    for (pi, s), r in zip(jobs, results):
        observed += r["observed"]
        p = programs[pi]
        key = sha(json.dumps([cfg_name(s["cfg"]), s["packaging"], [sha(gen.render_tu(t)) if n != "main" else "main"
                                                                   for n in s["order"] for t in ([x for x in p["tus"] if x["name"] == n] or [None])
                                                                   if n == "main" or t]]))
        sched_keys.add(key)
        table_probes = [it for t in p["tus"] if t["role"] == "user" for it in t["items"] if it.get("kind") in gen.TABLE_KINDS and "id" in it]
        if table_probes:
            nontrivial.add(key)
        for it in table_probes:
            kinds[it["kind"]] = kinds.get(it["kind"], 0) + 1
        for f in r["failures"]:
            f["program"] = pi
            failures.append(f)
    for f in api_box.get("failures", []):
        f["program"] = None
        failures.append(f)
    # ---- violations: group by class, minimise one representative per class, gate, report
    groups_ = {}
    for f in failures:
        groups_.setdefault(vclass(f), []).append(f)
    exit_code = 0
    nviol = 0
    known_lines = []
    reported = []
    ungated = []
    for n, (vc, fs) in enumerate(sorted(groups_.items())):
        fs.sort(key=lambda f: (0, 0) if f["program"] is None else (len(programs[f["program"]]["tus"]), sum(len(t["items"]) for t in programs[f["program"]]["tus"])))
        f = fs[0]
        k = known_match(f)
        if k:
            sd = f["schedule"]
            known_lines.append("KNOWN-FINDING: property=%s compiler=%s facility=%s class=%s (%d schedules; e.g. %s under %s order=%s)" % (
                PROP, vc[0], vc[1], vc[2], len(fs), f.get("note", ""), sd["cfg"] if isinstance(sd["cfg"], str) else cfg_name(sd["cfg"]), sd.get("order", sd.get("link"))))
            continue
        nviol += 1
        if len(reported) >= 4:
            log("violation class %s: %d failing (schedule, probe) pairs (not minimised: four classes already reported)" % (list(vc), len(fs)))
            continue
        log("violation class %s: %d failing (schedule, probe) pairs; minimising one ..." % (list(vc), len(fs)))
        if f["program"] is None:
            names_ = sorted({x["note"].split(" [")[0] for x in fs})
            log("  public API calls whose result before main differs (%d): %s" % (len(names_), ", ".join(names_[:6])))
            path = os.path.join(common.replay_dir(), "C19-%d-%d.json" % (seed, n))
            ok_ = False
            # a history (chain) is defined by the whole registered op set: replayed with all of it
            for only_ in ((None,) if f["note"].startswith("chain:") else ([f["note"].split(" [")[0]], None)):
                with open(path, "w", encoding="utf-8") as fh:
                    json.dump({"property": PROP, "kind": "api-sweep", "seed": seed, "violation": {k: v for k, v in f.items() if k != "schedule"},
                               "schedule": f["schedule"], "only": only_, "thorough": thorough, "repo": common.repo_state(),
                               "how_to_replay": "./check C19 --replay <this file>  (rebuilds a harness holding the named public API call"
                                                " -- or the whole op set when 'only' is null -- and evaluates it before and inside main)"}, fh, indent=1)
                    fh.write("\n")
                if gate(path):
                    ok_ = True
                    break
            if not ok_:
                ungated.append(path)
                log("  (not reported: the API-sweep candidate did not reproduce in two fresh-process replays: %s)" % path)
                continue
            log("  %s %s under %s link=%s" % (f["class"], f["note"], f["schedule"]["cfg"], f["schedule"]["link"]))
            reported.append("VIOLATION property=%s replay=%s" % (PROP, path))
            exit_code = 1
            continue
        mp, ms, used = minimise(tc, programs[f["program"]], f)
        path = write_replay(seed, mp, ms, f, n)
        if not gate(path):
            ungated.append(path)
            log("  (not reported: the minimised candidate did not reproduce in two fresh-process replays: %s)" % path)
            continue
        log("  %s probe=%s kind=%s note=%s under %s order=%s (minimised with %d rebuild-and-runs)" % (
            f["class"], f["probe"], f["kind"], f.get("note"), cfg_name(ms["cfg"]), ms["order"], used))
        if "pre" in f:
            log("  before main: %r   inside main: %r" % (f["pre"], f["main"]))
        reported.append("VIOLATION property=%s replay=%s" % (PROP, path))
        exit_code = 1
    for l in known_lines:
        log(l)
    for l in reported:
        log(l)
    if ungated and exit_code == 0:
        log("INFRASTRUCTURE: %d candidate violations did not reproduce in fresh-process replays and nothing else was found: %s" % (len(ungated), ungated[:3]))
        return 2
    if infra and exit_code == 0:
        return 2
    wall = time.time() - t0
    sample_prog = programs[lto_index - 1] if nseeded else programs[0]
    samples = [{"program": sample_prog["label"],
                "tus": [{"name": t["name"], "role": t["role"], "includes": t["includes"],
                         "items": [{k: it.get(k) for k in ("id", "form", "storage", "kind", "note") if it.get(k) is not None} for it in t["items"]][:8]}
                        for t in sample_prog["tus"]],
                "schedules": [{"cfg": cfg_name(s["cfg"]), "packaging": s["packaging"], "order": s["order"]}
                              for (pi, s) in jobs if programs[pi] is sample_prog][:6]},
               {"probe_source_example": gen.render_item(programs[0]["tus"][0]["items"][0])}]
    cov = {
        "evaluations": len(jobs) + int(api_box.get("stats", {}).get("schedules", 0)),
        "distinct_nontrivial": len(nontrivial) + int(api_box.get("stats", {}).get("schedules", 0)),
        "rule": "one evaluation = one simulated run = one program (generated TUs with pre-main probes) built by one compiler at one "
                "flag set, packaged and linked in one order, executed once clean (reference, nothing before main) and once for real. "
                "distinct = distinct (compiler, flags, packaging, ordered list of TU content hashes); non-trivial = the program "
                "contains at least one table-dependent probe that was evaluated before main. API-sweep schedules (the whole "
                "extracted public API evaluated before main, per compiler and link order) count as one evaluation each",
        "samples": samples,
        "exhaustive": False,
        "simulated_runs": len(jobs), "runs_per_hour": round(len(jobs) / wall * 3600, 1),
        "simulated_time": "not applicable: the library has no clock seam; progress is counted in probes and schedules",
        "probe_evaluations_before_main": observed,
        "probes_dropped_uncompilable": len(dropped_probes),
        "api_sweep": api_box.get("stats", {"enabled": False}),
        "observer": {"enabled": bool(obs_src), "tables_watched": len(obs_labels),
                     "distinct_table_initialisation_masks_seen_at_probe_time": len(masks_seen),
                     "distinct_(probe_kind,mask)_states": len(mask_states),
                     "meaning": "mask = per library table, whether its storage was still all-zero (not yet dynamically initialised) when a probe started before main"},
        "table_dependent_probes_by_kind": kinds,
        "programs": len(programs), "covering_programs": ncover, "seeded_programs": nseeded, "lto_probe_programs": 1,
        "configs": [cfg_name(c) for c in configs],
        "unit_types_covered": len(cat.units), "catalogue": cat.summary(),
        "compiles": tc.compiles, "links": tc.links, "process_runs": tc.runs,
        "fault_kinds": {"note": "C19 has no run-time faults; the 'fault' is an unfavourable initialisation order",
                        "adversarial_orders(user TU first on link line)": sum(1 for (_, s) in jobs if s["order"][0] != "main" and s["order"][0].startswith("u")),
                        "packaging_shared_library": sum(1 for (_, s) in jobs if s["packaging"] != "objects")},
        "failing_schedule_probe_pairs": len(failures), "violation_classes": len(groups_),
        "known_findings_matched": len(known_lines),
        "components": {"real": ["all PhQ headers from /repo/include (working tree)", "libstdc++", "g++ 12", "clang++ 14", "GNU ld", "ld.so"],
                       "simulated": [], "stubbed": [],
                       "scheduler": "the toolchain itself; the plan fixes compiler, flags, TU layout, packaging and link order"},
        "repo": common.repo_state(),
    }
    common.write_evidence(PROP, tier, seed, "exploration", cov, wall, nviol,
                          ["g++ 12.2 and clang++ 14 with GNU ld on x86-64 Linux stand for 'the two supported compilers'",
                           "only initialisation orders these toolchains actually produce are explored, not every order the standard permits",
                           "model probes are GCC-only (clang 14 rejects ConstitutiveModel/*.hpp independent of schedule)",
                           "global locale, C locale and rounding mode are at their defaults"])
    log("C19 %s: schedules=%d distinct=%d probes-before-main=%d failures=%d classes=%d wall=%.0fs -> exit %d" % (
        tier, len(jobs), len(sched_keys), observed, len(failures), len(groups_), wall, exit_code))
    return exit_code


# ------------------------------------------------------------------------------- API sweep
# Every public API call the C20 harness knows (one op instance per public member / free function x numeric
# type, extracted from the current headers) is executed once before main -- from ordinary and from inline
# registrar objects defined after the library's includes -- and once inside main.  This extends C19 from the
# facilities that rely on a table today to any facility that might tomorrow.
def api_parse(rc, out, err):
    res = {"rc": rc, "done": False, "recs": {}, "in_flight": None, "reached_main": False, "tail": ""}
    for line in out.decode(errors="replace").splitlines():
        if line.startswith("P "):
            t = line.split(" ", 11)
            if len(t) == 12:
                res["recs"][int(t[1])] = {"form": t[2], "st": int(t[3]), "h": t[4], "len": t[5], "type": t[6], "mst": int(t[7]), "mh": t[8],
                                          "mlen": t[9], "mtype": t[10], "name": t[11]}
        elif line.startswith("DONE"):
            res["done"] = True
    open_ids, tail = [], []
    open_lits = []
    for line in err.decode(errors="replace").splitlines():
        if line.startswith("@B L "):
            open_lits.append(line[5:])
        elif line.startswith("@E L "):
            if line[5:] in open_lits:
                open_lits.remove(line[5:])
        elif line.startswith("@B "):
            open_ids.append(int(line[3:]))
        elif line.startswith("@E "):
            i = int(line[3:])
            if i in open_ids:
                open_ids.remove(i)
        elif line.startswith("@M"):
            res["reached_main"] = True
        else:
            tail.append(line)
    res["in_flight"] = open_ids[-1] if open_ids else None
    res["literal_in_flight"] = open_lits[-1] if open_lits else None
    res["tail"] = "\n".join(tail[-5:])[:500]
    return res


def api_run(exe, skip="", salt=""):
    env = dict(os.environ)
    env["VERIF_SKIP"] = skip
    env["VERIF_API_SALT"] = salt
    env["LC_ALL"] = "C"
    rc, out, err = run([exe], env=env, timeout=300)
    return api_parse(rc, out, err)


def api_check(exe, cfgname, linkname, salt):
    """returns (failures, infra, observed)"""
    from .c20 import family
    ref = api_run(exe, "all", salt)
    if not ref["done"] and ref.get("literal_in_flight") and not ref["reached_main"]:
        # a literal-operand namespace-scope object died during its (dynamic) initialisation: cannot be skipped at run time
        name = ref["literal_in_flight"]
        return [{"probe": None, "class": "hang" if ref["rc"] is None else "crash:%s" % sig(ref["rc"]), "facility": "api:" + family(name).split("|")[0],
                 "kind": "api", "form": "c", "note": name, "compiler": "clang" if "clang" in cfgname else "gcc", "detail": ref["tail"],
                 "schedule": {"api": True, "cfg": cfgname, "link": linkname, "salt": salt}}], None, 0
    if not ref["done"]:
        return [], "API sweep reference process did not finish (%s, %s): rc=%s %s" % (cfgname, linkname, ref["rc"], ref["tail"]), 0
    failures, skip = [], []
    res = None
    for _ in range(60):
        res = api_run(exe, ",".join(str(i) for i in skip), salt)
        if res["done"]:
            break
        pid = res["in_flight"]
        if pid is None or pid in skip or res["reached_main"]:
            return failures, "API sweep process died with no op in flight (%s, %s): rc=%s %s" % (cfgname, linkname, res["rc"], res["tail"]), 0
        name = ref["recs"].get(pid, {}).get("name", "?")
        failures.append({"probe": pid, "class": "hang" if res["rc"] is None else "crash:%s" % sig(res["rc"]), "facility": "api:" + family(name).split("|")[0],
                         "kind": "api", "form": ref["recs"].get(pid, {}).get("form"), "note": name, "compiler": "clang" if "clang" in cfgname else "gcc",
                         "detail": res["tail"], "schedule": {"api": True, "cfg": cfgname, "link": linkname, "salt": salt}})
        skip.append(pid)
    observed = 0
    nchains = 0
    for pid, p in sorted(res["recs"].items()):
        if pid in skip or p["st"] == 2:
            continue
        observed += 1
        nchains += 1 if p["form"] == "h" else 0
        r = ref["recs"].get(pid)
        cls = None
        if p["st"] == 1:
            cls = "exception:%s" % p["type"]
        elif p["mst"] != 0 or (p["h"], p["len"]) != (p["mh"], p["mlen"]):
            cls = "mismatch"
        elif r is not None and (r["mst"] != 0 or (r["mh"], r["mlen"]) != (p["h"], p["len"])):
            cls = "mismatch-vs-clean-main"
        if cls:
            failures.append({"probe": pid, "class": cls, "facility": "api:" + family(p["name"]).split("|")[0], "kind": "api", "form": p["form"],
                             "note": p["name"] + (" [from inline variable]" if p["form"] == "i" else (" [literal operands, object at namespace scope]" if p["form"] == "c" else "")), "compiler": "clang" if "clang" in cfgname else "gcc",
                             "detail": "", "schedule": {"api": True, "cfg": cfgname, "link": linkname, "salt": salt}})
    with API_LOCK:
        API_COUNTERS["histories"] = API_COUNTERS.get("histories", 0) + nchains
    return failures, None, observed


import threading as _threading
API_LOCK = _threading.Lock()
API_COUNTERS = {}


def api_sweep(seed, thorough, only=None, cfg_filter=None):
    """builds the op harness without sanitizers per (compiler, opt), links it in several orders, runs it.
    returns dict(failures, infra, stats)"""
    from . import c20
    from .c20_gen import HarnessGen
    cfgs = [("g++", ["-O0"]), ("clang++", ["-O0"])] + ([("g++", ["-O2"]), ("clang++", ["-O2"])] if thorough else [])
    cflags_ = Catalogue().conditional_build_flags()["flags"]
    if cflags_:
        cfgs.append(("g++", ["-O0"] + cflags_))
    cfgs = [c for c in cfgs if shutil.which(c[0]) and (cfg_filter is None or " ".join([c[0]] + c[1]) == cfg_filter)]
    subset = None
    if not thorough and only is None:
        subset = c20.quick_subset(HarnessGen(Catalogue()).class_list(), seed)
    root = common.scratch("c19api")
    per = max(1, common.NCPU // max(1, len(cfgs))) if only is None else 1
    hs = []
    for cxx, opt in cfgs:
        # clang rejects (GCC only warns about) double->float narrowing inside a few library constructors
        flags = opt + (["-Wno-c++11-narrowing", "-ffp-contract=off"] if "clang" in cxx else [])   # see Toolchain.cflags for fp-contract
        hs.append(c20.Harness(os.path.join(root, (cxx + "".join(opt)).replace("+", "p")), flags, only=only, cxx=cxx, ntus=per,
                              label="api", subset=subset, runtime="c19_api_rt.cpp", no_models=("clang" in cxx), inline_twins=True))
        hs[-1].literal_seed = common.run_seed(seed, 31337)
    errs = pmap(lambda h: h.build(), hs, len(hs) or 1)
    for e in errs:
        if e:
            return {"failures": [], "infra": "API sweep harness: " + e, "stats": {}}
    failures, observed, runs = [], 0, 0
    rng = Rng(common.run_seed(seed, 4242))
    jobs = []
    for h, (cxx, opt) in zip(hs, cfgs):
        cfgname = " ".join([cxx] + opt)
        orders = [("rt-last", h.op_objects + [h.rt_object]), ("rt-first", [h.rt_object] + h.op_objects),
                  ("reversed", list(reversed(h.op_objects)) + [h.rt_object])]
        if thorough:
            for k in range(3):
                sh = rng.shuffle(h.op_objects + [h.rt_object])
                orders.append(("shuffle-%d" % k, sh))
        for lname, objs in orders:
            jobs.append((h, cfgname, lname, objs))

    def one(j):
        h, cfgname, lname, objs = j
        exe = os.path.join(h.work, "api_" + lname)
        rc, out, err = run([h.cxx] + h.flags + ["-o", exe] + objs, timeout=1800)
        if rc != 0:
            return [], "API sweep link failed: " + err.decode(errors="replace")[-2000:], 0
        out_f, out_obs = [], 0
        for k in range(nsalts):
            f_, infra_, obs_ = api_check(exe, cfgname, lname, "%d.%d" % (seed, k))
            if infra_:
                return out_f, infra_, out_obs
            out_f += f_
            out_obs += obs_
        return out_f, None, out_obs
    nsalts = int(os.environ.get("VERIF_C19_API_SEEDS", "48" if thorough else "16"))
    for f, infra, obs in pmap(one, jobs):
        if infra:
            return {"failures": failures, "infra": infra, "stats": {}}
        failures += f
        observed += obs
        runs += nsalts
    return {"failures": failures, "infra": None,
            "stats": {"op_instances": {(" ".join([c[0]] + c[1])): len(h.ops) for h, c in zip(hs, cfgs)}, "schedules": runs,
                      "op_evaluations_before_main": observed, "of_which_histories_on_a_shared_stream": API_COUNTERS.get("histories", 0), "build_seconds": {(" ".join([c[0]] + c[1])): round(h.build_s) for h, c in zip(hs, cfgs)},
                      "ops_dropped_uncompilable": sum(len(h.dropped) for h in hs)}}
