// C19 "API sweep" runtime: every generated op instance (one real public library call) is executed
// once BEFORE main -- from the dynamic initialiser of a namespace-scope registrar object that the
// generated translation unit defines after the library's includes -- and once more inside main;
// the canonical result hashes must agree.  No fault injection here: the allocation hooks of the C20
// runtime are not linked, only the operand makers and op tables are shared.
#include "c20_rt.hpp"

#include <cstdlib>
#include <exception>
#include <typeinfo>
#include <unistd.h>

namespace vrt {
AllocState g_alloc;
bool g_armed = false;

namespace {
struct ApiRec {
  const OpEntry* e;
  std::uint64_t pre_h;
  long pre_len;
  int pre_status;  // 0 ok, 1 exception, 2 skipped
  char form;       // 's' ordinary static object, 'i' inline variable
  const char* pre_type;
};
constexpr int kMaxApi = 120000;
ApiRec g_api[kMaxApi];  // zero-initialised: usable from any dynamic initialiser
int g_napi = 0;

void mark(char c, int id) {
  char buf[48];
  int n = std::snprintf(buf, sizeof buf, "@%c %d\n", c, id);
  if (n > 0) { ssize_t w = ::write(2, buf, static_cast<size_t>(n)); (void)w; }
}

bool skipped(int id) {
  const char* s = std::getenv("VERIF_SKIP");
  if (s == nullptr || *s == 0) return false;
  if (std::strcmp(s, "all") == 0) return true;
  while (*s) {
    char* end = nullptr;
    long v = std::strtol(s, &end, 10);
    if (end == s) break;
    if (v == id) return true;
    s = (*end == ',') ? end + 1 : end;
  }
  return false;
}

std::uint64_t name_seed(const char* name) {
  std::uint64_t h = 1469598103934665603ULL;
  for (const char* p = name; *p; ++p) { h ^= static_cast<unsigned char>(*p); h *= 1099511628211ULL; }
  const char* salt = std::getenv("VERIF_API_SALT");
  if (salt) for (const char* p = salt; *p; ++p) { h ^= static_cast<unsigned char>(*p); h *= 1099511628211ULL; }
  return h;
}

struct Result { int status; std::uint64_t h; long len; const char* type; };

Result run(const OpEntry& e) {
  Result r{0, 0, 0, ""};
  FaultBuf buf;
  std::ostream os(&buf);
  Ctx c;
  c.vclass = -1;
  // parser ops are cheap and input-sensitive: 32 different byte strings per evaluation, hashes chained
  const int reps = (e.flags & kParser) ? 32 : 1;
  std::uint64_t chain = 0;
  long len = 0;
  try {
    for (int k = 0; k < reps; ++k) {
      c.reset(name_seed(e.name) + static_cast<std::uint64_t>(k) * 0x9E3779B97F4A7C15ULL, -1, -1, &os);
      e.fn(c, e.which);
      chain = chain * 1099511628211ULL + c.h;
      len += c.result_len;
    }
    c.h = chain;
    c.result_len = len;
  } catch (const std::exception& ex) {
    r.status = 1;
    r.type = typeid(ex).name();
  } catch (...) {
    r.status = 1;
    r.type = "unknown";
  }
  r.h = c.h;
  r.len = c.result_len;
  return r;
}

// ---- histories before main: short sequences of stream ops that share ONE caller-owned stream, so that state an op
// leaves in the stream (a manipulator's iword/pword slot, width, flags, state bits) meets the next op -- evaluated from the
// same registrar objects as the single ops, and again inside main.  Ids start at kChainBase.
constexpr int kChainBase = 2000000;
constexpr int kMaxChains = 60000;
struct ChainRec {
  int ids[4];
  int n;
  std::uint64_t seed;
  std::uint64_t pre_h;
  long pre_len;
  int pre_status;
  const char* pre_type;
  char form;
};
ChainRec g_chains[kMaxChains];
int g_nchains = 0;
int g_stream_ids[kMaxApi];
int g_nstream = 0;
int g_manip_ids[kMaxApi];
int g_nmanip = 0;

std::uint64_t mix(std::uint64_t& st) {
  std::uint64_t z = (st += 0x9E3779B97F4A7C15ULL);
  z = (z ^ (z >> 30)) * 0xBF58476D1CE4E5B9ULL;
  z = (z ^ (z >> 27)) * 0x94D049BB133111EBULL;
  return z ^ (z >> 31);
}

Result run_chain(const ChainRec& ch) {
  Result r{0, 0, 0, ""};
  FaultBuf buf;
  std::ostream os(&buf);
  Ctx c;
  c.vclass = -1;
  std::uint64_t chain = 0;
  long len = 0;
  try {
    for (int k = 0; k < ch.n; ++k) {
      const OpEntry& e = *g_api[ch.ids[k]].e;
      c.reset(name_seed(e.name) + ch.seed + static_cast<std::uint64_t>(k) * 0x9E3779B97F4A7C15ULL, -1, -1, &os);
      e.fn(c, e.which);
      chain = chain * 1099511628211ULL + c.h;
      len += c.result_len;
    }
  } catch (const std::exception& ex) {
    r.status = 1;
    r.type = typeid(ex).name();
  } catch (...) {
    r.status = 1;
    r.type = "unknown";
  }
  for (char ch_ : buf.accepted) chain = (chain ^ static_cast<unsigned char>(ch_)) * 1099511628211ULL;
  chain = chain * 1099511628211ULL + static_cast<std::uint64_t>(os.rdstate());
  r.h = chain;
  r.len = len + static_cast<long>(buf.accepted.size());
  return r;
}

void chains_after_registration(char form, int first_new) {
  if (g_nstream < 2) return;
  const int want = g_nmanip > 0 ? 24 : 4;
  std::uint64_t st = name_seed("chain") + static_cast<std::uint64_t>(g_nchains) * 0xD1B54A32D192ED03ULL;
  for (int k = 0; k < want && g_nchains < kMaxChains; ++k) {
    ChainRec& ch = g_chains[g_nchains];
    ch.form = form;
    ch.seed = mix(st);
    ch.n = 2 + static_cast<int>(mix(st) % 3);
    for (int i = 0; i < ch.n; ++i) {
      const bool last = i + 1 == ch.n;
      if (!last && g_nmanip > 0 && mix(st) % 4 != 0) {
        ch.ids[i] = g_manip_ids[mix(st) % static_cast<std::uint64_t>(g_nmanip)];
      } else {
        // prefer the stream ops of the table that has just been registered (they are initialised under the same conditions)
        int pick = g_stream_ids[mix(st) % static_cast<std::uint64_t>(g_nstream)];
        if (mix(st) % 2 == 0) {
          for (int tries = 0; tries < 8 && pick < first_new; ++tries) pick = g_stream_ids[mix(st) % static_cast<std::uint64_t>(g_nstream)];
        }
        ch.ids[i] = pick;
      }
    }
    const int id = kChainBase + g_nchains;
    ++g_nchains;
    if (skipped(id)) { ch.pre_status = 2; continue; }
    mark('B', id);
    Result r = run_chain(ch);
    ch.pre_status = r.status;
    ch.pre_h = r.h;
    ch.pre_len = r.len;
    ch.pre_type = r.type;
    mark('E', id);
  }
}

void register_form_ops(const OpEntry* entries, int count, char form) {
  for (int i = 0; i < count && g_napi < kMaxApi; ++i) {
    int id = g_napi++;
    ApiRec& rec = g_api[id];
    rec.e = &entries[i];
    rec.form = form;
    if (skipped(id)) { rec.pre_status = 2; continue; }
    mark('B', id);
    Result r = run(entries[i]);
    rec.pre_status = r.status;
    rec.pre_h = r.h;
    rec.pre_len = r.len;
    rec.pre_type = r.type;
    mark('E', id);
  }
}

void register_form(const OpEntry* entries, int count, char form) {
  const int first_new = g_napi;
  for (int i = 0; i < count && first_new + i < kMaxApi; ++i) {
    if (entries[i].flags & kManipulator) g_manip_ids[g_nmanip++] = first_new + i;
    else if (entries[i].flags & kUsesStream) g_stream_ids[g_nstream++] = first_new + i;
  }
  register_form_ops(entries, count, form);
  chains_after_registration(form, first_new);
}
}  // namespace

struct ClitTable { const ClitEntry* entries; int count; };
ClitTable g_clits[4096];
int g_nclits = 0;
void clit_mark(char c, const char* name) {
  char buf[400];
  int n = std::snprintf(buf, sizeof buf, "@%c L %s\n", c, name);
  if (n > 0) { ssize_t w = ::write(2, buf, static_cast<size_t>(n)); (void)w; }
}
void register_clits(const ClitEntry* entries, int count) {
  if (g_nclits < 4096) g_clits[g_nclits++] = ClitTable{entries, count};
}

void register_ops(const OpEntry* entries, int count) { register_form(entries, count, 's'); }
void register_ops_inline(const OpEntry* entries, int count) { register_form(entries, count, 'i'); }
}  // namespace vrt

int main() {
  vrt::mark('M', 0);
  for (int id = 0; id < vrt::g_napi; ++id) {
    vrt::ApiRec& rec = vrt::g_api[id];
    vrt::Result r = vrt::run(*rec.e);
    std::printf("P %d %c %d %016llx %ld %s %d %016llx %ld %s %s\n", id, rec.form, rec.pre_status,
                static_cast<unsigned long long>(rec.pre_h), rec.pre_len, (rec.pre_type && *rec.pre_type) ? rec.pre_type : "-", r.status,
                static_cast<unsigned long long>(r.h), r.len, (r.type && *r.type) ? r.type : "-", rec.e->name);
  }
  int lid = 1000000;
  for (int t = 0; t < vrt::g_nclits; ++t) {
    for (int i = 0; i < vrt::g_clits[t].count; ++i, ++lid) {
      const vrt::ClitEntry& e = vrt::g_clits[t].entries[i];
      int st = 0, mst = 0;
      vrt::ClitHash a{0, 0}, b{0, 0};
      try { a = e.object(); } catch (...) { st = 1; }
      try { b = e.runtime(); } catch (...) { mst = 1; }
      std::printf("P %d c %d %016llx %ld - %d %016llx %ld - %s\n", lid, st, static_cast<unsigned long long>(a.h), a.len, mst,
                  static_cast<unsigned long long>(b.h), b.len, e.name);
    }
  }
  for (int k = 0; k < vrt::g_nchains; ++k) {
    const vrt::ChainRec& ch = vrt::g_chains[k];
    vrt::Result r = vrt::run_chain(ch);
    std::string name = "chain:";
    for (int i = 0; i < ch.n; ++i) { if (i) name += "=>"; name += vrt::g_api[ch.ids[i]].e->name; }
    std::printf("P %d h %d %016llx %ld %s %d %016llx %ld %s %s\n", vrt::kChainBase + k, ch.pre_status, static_cast<unsigned long long>(ch.pre_h), ch.pre_len,
                (ch.pre_type && *ch.pre_type) ? ch.pre_type : "-", r.status, static_cast<unsigned long long>(r.h), r.len, (r.type && *r.type) ? r.type : "-", name.c_str());
  }
  std::printf("DONE %d\n", vrt::g_napi);
  std::fflush(stdout);
  return 0;
}
