// C20 worker: replaced global operator new/delete (the allocation-failure seam), byte-string
// generators, and the plan executor.  Reads a plan on stdin, writes one flushed line per event.
//
//   RUN <id> [first-op-index]                    start of a run (stream slots are reset)
//   CFG <slot> <budget> <mode> <state> <flags>   configure stream slot (sink fault as an explicit op)
//   OP <name> <seed> <p0> <p1> <slot> <fault> <a> <b> [value-class]
//        fault: none | alloc k | allocfrom k | alloc2 k1 k2 | alloceach | sink budget mode | sinkeach | cold k persistent
//   PAIR <nameA> <seedA> <nameB> <seedB> <reps>     two threads at once (concurrent build only)
//   EXITOP <name> <seed>                         queue the op to run during static destruction (after main returns)
//   MODE <0..3>                                  set the floating-point rounding mode for the rest of the run
//   REP <name> <seed> <n> <vary>                 the same op n times, seed + i*vary (endurance, fault-free)
//   END
#include "c20_rt.hpp"

#include <cfenv>
#include <cstdarg>
#include <cstdlib>
#include <exception>
#include <iostream>
#include <locale>
#include <map>
#include <new>
#include <sstream>
#include <thread>
#include <typeinfo>
#include <unistd.h>

namespace vrt {
AllocState g_alloc;
bool g_armed = false;

static OpTable g_tables[1024];
static int g_ntables = 0;
void register_ops(const OpEntry* entries, int count) {
  if (g_ntables < 1024) g_tables[g_ntables++] = OpTable{entries, count};
}
void register_ops_inline(const OpEntry*, int) {}
void clit_mark(char, const char*) {}
void register_clits(const ClitEntry*, int) {}

}  // namespace vrt

#ifndef VRT_CONCURRENT
// ------------------------------------------------------------------------- allocation seam
static void* vrt_alloc(std::size_t n, bool nothrow) {
  vrt::AllocState& a = vrt::g_alloc;
  if (a.counting) {
    long idx = a.count++;
    if (a.fail_at >= 0 && (idx == a.fail_at || idx == a.fail_at2 || idx == a.fail_at3 || (a.fail_from && idx > a.fail_at))) {
      ++a.fired;
      if (nothrow) return nullptr;
      throw std::bad_alloc();
    }
  }
  void* p = std::malloc(n ? n : 1);
  if (p == nullptr) {
    if (nothrow) return nullptr;
    throw std::bad_alloc();
  }
  return p;
}
static void* vrt_alloc_aligned(std::size_t n, std::size_t al, bool nothrow) {
  vrt::AllocState& a = vrt::g_alloc;
  if (a.counting) {
    long idx = a.count++;
    if (a.fail_at >= 0 && (idx == a.fail_at || idx == a.fail_at2 || idx == a.fail_at3 || (a.fail_from && idx > a.fail_at))) {
      ++a.fired;
      if (nothrow) return nullptr;
      throw std::bad_alloc();
    }
  }
  void* p = nullptr;
  if (al < sizeof(void*)) al = sizeof(void*);
  if (posix_memalign(&p, al, n ? n : 1) != 0) {
    if (nothrow) return nullptr;
    throw std::bad_alloc();
  }
  return p;
}
void* operator new(std::size_t n) { return vrt_alloc(n, false); }
void* operator new[](std::size_t n) { return vrt_alloc(n, false); }
void* operator new(std::size_t n, const std::nothrow_t&) noexcept { return vrt_alloc(n, true); }
void* operator new[](std::size_t n, const std::nothrow_t&) noexcept { return vrt_alloc(n, true); }
void* operator new(std::size_t n, std::align_val_t al) { return vrt_alloc_aligned(n, static_cast<std::size_t>(al), false); }
void* operator new[](std::size_t n, std::align_val_t al) { return vrt_alloc_aligned(n, static_cast<std::size_t>(al), false); }
void* operator new(std::size_t n, std::align_val_t al, const std::nothrow_t&) noexcept { return vrt_alloc_aligned(n, static_cast<std::size_t>(al), true); }
void* operator new[](std::size_t n, std::align_val_t al, const std::nothrow_t&) noexcept { return vrt_alloc_aligned(n, static_cast<std::size_t>(al), true); }
void operator delete(void* p) noexcept { std::free(p); }
void operator delete[](void* p) noexcept { std::free(p); }
void operator delete(void* p, std::size_t) noexcept { std::free(p); }
void operator delete[](void* p, std::size_t) noexcept { std::free(p); }
void operator delete(void* p, const std::nothrow_t&) noexcept { std::free(p); }
void operator delete[](void* p, const std::nothrow_t&) noexcept { std::free(p); }
void operator delete(void* p, std::align_val_t) noexcept { std::free(p); }
void operator delete[](void* p, std::align_val_t) noexcept { std::free(p); }
void operator delete(void* p, std::size_t, std::align_val_t) noexcept { std::free(p); }
void operator delete[](void* p, std::size_t, std::align_val_t) noexcept { std::free(p); }
void operator delete(void* p, std::align_val_t, const std::nothrow_t&) noexcept { std::free(p); }
void operator delete[](void* p, std::align_val_t, const std::nothrow_t&) noexcept { std::free(p); }

#endif  // VRT_CONCURRENT

// sanitizer hits are classified by exit code / stderr; leaks are not a C20 matter
extern "C" __attribute__((used)) const char* __asan_default_options() {
  return "exitcode=77:detect_leaks=0:abort_on_error=0:allocator_may_return_null=1";
}
extern "C" __attribute__((used)) const char* __ubsan_default_options() { return "print_stacktrace=0:halt_on_error=1"; }
extern "C" __attribute__((used)) const char* __tsan_default_options() { return "halt_on_error=1:exitcode=66:report_thread_leaks=0:second_deadlock_stack=0"; }

// ------------------------------------------------------------------------- executor
namespace {
using vrt::Ctx;
using vrt::OpEntry;

struct Outcome {
  int cls = 0;  // 0 ok, 1 bad_alloc, 2 foreign exception
  std::string type;
  std::uint64_t h = 0;
  long len = 0;
  bool invalid_enum = false;
  std::string invalid_what;
  bool nonfinite = false;
  int rdstate = 0;
};

long g_run = 0, g_opidx = 0;
const char* g_phase = "-";
bool g_fault_armed = false;

[[noreturn]] void on_terminate() {
  const char* type = "none";
  std::exception_ptr e = std::current_exception();
  if (e) {
    try { std::rethrow_exception(e); }
    catch (const std::bad_alloc&) { type = "std::bad_alloc"; }
    catch (const std::exception& ex) { type = typeid(ex).name(); }
    catch (...) { type = "unknown"; }
  }
  char b[256];
  int n = std::snprintf(b, sizeof b, "T %ld %ld %s phase=%s fired=%ld\n", g_run, g_opidx, type, g_phase, vrt::g_alloc.fired);
  if (n > 0) { ssize_t w = ::write(1, b, static_cast<size_t>(n)); (void)w; }
  _exit(78);
}

bool g_in_thread = false;   // execute the call on a short-lived second thread (joined before anything else happens)

Outcome run_once_here(const OpEntry& e, Ctx& c, std::uint64_t seed, long p0, long p1, std::ostream* os);

Outcome run_once(const OpEntry& e, Ctx& c, std::uint64_t seed, long p0, long p1, std::ostream* os) {
  if (!g_in_thread) return run_once_here(e, c, seed, p0, p1, os);
  Outcome o;
  std::thread t([&] { o = run_once_here(e, c, seed, p0, p1, os); });
  t.join();
  return o;
}

Outcome run_once_here(const OpEntry& e, Ctx& c, std::uint64_t seed, long p0, long p1, std::ostream* os) {
  Outcome o;
  c.reset(seed, p0, p1, os);
  try {
    e.fn(c, e.which);
  } catch (const std::bad_alloc&) {
    o.cls = 1;
    o.type = "std::bad_alloc";
  } catch (const vrt::SinkError& ex) {
    o.cls = 3;   // the device's own exception, re-thrown by the stream because the CALLER turned its exception mask on
    o.type = typeid(ex).name();
  } catch (const std::ios_base::failure& ex) {
    o.cls = 3;   // what a stream throws when the CALLER turned its exception mask on; allowed only then
    o.type = typeid(ex).name();
  } catch (const std::exception& ex) {
    o.cls = 2;
    o.type = typeid(ex).name();
  } catch (...) {
    o.cls = 2;
    o.type = "unknown";
  }
#ifndef VRT_CONCURRENT
  vrt::g_alloc.counting = false;
#endif
  o.h = c.h;
  o.len = c.result_len;
  o.invalid_enum = c.invalid_enum;
  if (c.invalid_enum_what) o.invalid_what = c.invalid_enum_what;
  o.nonfinite = c.nonfinite_result;
  o.rdstate = os ? static_cast<int>(os->rdstate()) : 0;
  return o;
}

struct Scratch {
  vrt::FaultBuf buf;
  std::ostream os;
  Scratch() : os(&buf) {}
};

void say(const char* fmt, ...) __attribute__((format(printf, 1, 2)));
void say(const char* fmt, ...) {
  va_list ap;
  va_start(ap, fmt);
  std::vprintf(fmt, ap);
  va_end(ap);
  std::fflush(stdout);
}

std::string demangled(const std::string& t) { return t; }

struct Stats {
  long execs = 0, fired = 0, bad_alloc = 0, silent = 0, sink_refused = 0, viol = 0, not_fired = 0, nonfinite = 0, spontaneous_bad_alloc = 0;
  long after = 0, after_diverged = 0, after_bad_alloc = 0;
};

void check_outcome(const OpEntry& e, const Outcome& o, bool fault_fired, const char* fdesc, Stats& st, bool mask_on = false) {
  bool parser = (e.flags & vrt::kParser) != 0;
  if (o.cls == 2 || (o.cls == 3 && !mask_on)) {
    say("V %ld %ld %s:%s fault=%s\n", g_run, g_opidx, parser ? "parser-threw" : "foreign-exception", o.type.c_str(), fdesc);
    ++st.viol;
  } else if (o.cls == 1) {
    ++st.bad_alloc;
    if (!fault_fired) ++st.spontaneous_bad_alloc;
  }
  if (o.invalid_enum) {
    say("V %ld %ld invalid-enum fault=%s what=%s\n", g_run, g_opidx, fdesc, o.invalid_what.c_str());
    ++st.viol;
  }
}

vrt::StreamSlot* g_slots[vrt::kStreamSlots];

void reset_slot(int s, long budget, int mode, int state, unsigned flags) {
  delete g_slots[s];
  g_slots[s] = new vrt::StreamSlot();
  vrt::StreamSlot& sl = *g_slots[s];
  sl.buf.budget = budget;
  sl.buf.mode = mode;
  if (flags & 1) sl.os.width(static_cast<std::streamsize>((flags >> 14) & 1 ? -static_cast<long>((flags >> 8) % 40) - 1 : 3 + (flags >> 8) % 40));
  if (flags & 2) sl.os.fill('*');
  if (flags & 4) sl.os.setf(std::ios::left, std::ios::adjustfield);
  if (flags & 8) sl.os.setf(std::ios::unitbuf);
  if (flags & 16) sl.os.setf(std::ios::internal, std::ios::adjustfield);
  if (flags & 32) sl.os.setf(std::ios::showpos | std::ios::uppercase | std::ios::showpoint);
  if (flags & 64) sl.os.precision(3);
  if (flags & 128) { sl.os.rdbuf(nullptr); sl.null_buf = true; }  // legal: a stream with no buffer (badbit)
  std::ios::iostate stt = std::ios::goodbit;
  if (state & 1) stt |= std::ios::failbit;
  if (state & 2) stt |= std::ios::badbit;
  if (state & 4) stt |= std::ios::eofbit;
  if (stt != std::ios::goodbit) sl.os.setstate(stt);
}

void execute(const OpEntry& e, std::uint64_t seed, long p0, long p1, int slot, const std::string& fault, long fa, long fb, int vc, Stats& st) {
  Ctx c;
  c.vclass = vc;
  bool stream_op = (e.flags & vrt::kUsesStream) != 0;
  if (fault == "cold") {
    // cold start: no warm-up and no E0 -- the very first execution in this process already runs with the
    // fa-th allocation failing, so lazily initialised state (caches, reusable buffers, function-local
    // statics) is first filled under the fault.  Only meaningful as the first op of a fresh worker.
    g_phase = "cold";
    vrt::g_alloc = vrt::AllocState{};
    vrt::g_alloc.fail_at = fa;
    vrt::g_alloc.fail_from = fb != 0;
    vrt::g_armed = true;
    Scratch s;
    Outcome r = run_once(e, c, seed, p0, p1, &s.os);
    vrt::g_armed = false;
    ++st.execs;
    long fired = vrt::g_alloc.fired;
    if (fired > 0) ++st.fired; else ++st.not_fired;
    char fdesc[64];
    std::snprintf(fdesc, sizeof fdesc, "cold:%ld:%ld", fa, fb);
    check_outcome(e, r, fired > 0, fdesc, st);
    g_phase = "-";
    say("R %ld %ld ok n=%ld fired=%ld h0=%016llx len=%ld nf=0\n", g_run, g_opidx, vrt::g_alloc.count, fired, static_cast<unsigned long long>(r.h), r.len);
    return;
  }
  if (fault == "huge") {
    // huge text operands (see vrt::huge_view): one execution, no warm-up, no allocation fault; fa = size index
    g_phase = "huge";
    c.huge = 1 + static_cast<int>(fa % 2);
    c.huge_strings = fb != 0;
    vrt::g_armed = false;
    Scratch s;
    Outcome r = run_once(e, c, seed, p0, p1, &s.os);
    ++st.execs;
    char fdesc[32];
    std::snprintf(fdesc, sizeof fdesc, "huge:%ld", fa % 2);
    check_outcome(e, r, false, fdesc, st);
    g_phase = "-";
    say("R %ld %ld ok n=0 fired=0 h0=%016llx len=%ld nf=0\n", g_run, g_opidx, static_cast<unsigned long long>(r.h), r.len);
    return;
  }
  // warm-up: libstdc++ initialises some facilities lazily on first use (locale facets ...), which
  // allocates; run once uncounted so that allocation indices do not depend on process history
  g_phase = "warm";
  vrt::g_armed = false;
  {
    Scratch s;
    Outcome w = run_once(e, c, seed, p0, p1, &s.os);
    ++st.execs;
    if (w.cls == 2 || w.invalid_enum) {  // already a violation with no fault at all
      check_outcome(e, w, false, "none", st);
      say("R %ld %ld viol n=0 fired=0 h0=%016llx len=%ld\n", g_run, g_opidx, static_cast<unsigned long long>(w.h), w.len);
      return;
    }
  }
  // E0: fault-free, counted
  g_phase = "E0";
  vrt::g_armed = true;
  vrt::g_alloc = vrt::AllocState{};
  Outcome r0;
  long len0 = 0;
  {
    Scratch s;
    r0 = run_once(e, c, seed, p0, p1, &s.os);
    len0 = static_cast<long>(s.buf.accepted.size());
    ++st.execs;
  }
  long n = vrt::g_alloc.count;
  vrt::g_armed = false;
  check_outcome(e, r0, false, "none", st);
  if (r0.nonfinite) ++st.nonfinite;
  long fired_total = 0;
  auto e1_alloc = [&](long k, bool from, std::ostream* os, long k2 = -1, long k3 = -1) {
    g_phase = from ? "E1-allocfrom" : (k3 >= 0 ? "E1-alloc3" : (k2 >= 0 ? "E1-alloc2" : "E1-alloc"));
    vrt::g_alloc = vrt::AllocState{};
    vrt::g_alloc.fail_at = k;
    vrt::g_alloc.fail_at2 = k2;
    vrt::g_alloc.fail_at3 = k3;
    vrt::g_alloc.fail_from = from;
    vrt::g_armed = true;
    g_fault_armed = true;
    Scratch s;
    Outcome r1 = run_once(e, c, seed, p0, p1, os ? os : &s.os);
    vrt::g_armed = false;
    g_fault_armed = false;
    ++st.execs;
    long fired = vrt::g_alloc.fired;
    fired_total += fired;
    char fdesc[64];
    if (k3 >= 0) std::snprintf(fdesc, sizeof fdesc, "alloc3:%ld:%ld:%ld", k, k2, k3);
    else if (k2 >= 0) std::snprintf(fdesc, sizeof fdesc, "alloc2:%ld:%ld", k, k2);
    else std::snprintf(fdesc, sizeof fdesc, "%s:%ld", from ? "allocfrom" : "alloc", k);
    if (fired == 0) ++st.not_fired; else ++st.fired;
    check_outcome(e, r1, fired > 0, fdesc, st);
    if (r1.cls == 0 && fired > 0 && (r1.h != r0.h)) ++st.silent;
  };
  auto e1_sink = [&](long budget, int mode, int state) {
    g_phase = "E1-sink";
    vrt::g_alloc = vrt::AllocState{};
    Scratch s;
    s.buf.budget = budget;
    s.buf.mode = mode;
    std::ios::iostate stt = std::ios::goodbit;
    if (state & 1) stt |= std::ios::failbit;
    if (state & 2) stt |= std::ios::badbit;
    if (state & 4) stt |= std::ios::eofbit;
    if (stt != std::ios::goodbit) s.os.setstate(stt);
    Outcome r1 = run_once(e, c, seed, p0, p1, &s.os);
    ++st.execs;
    char fdesc[64];
    std::snprintf(fdesc, sizeof fdesc, "sink:%ld:%d:%d", budget, mode, state);
    if (s.buf.refused > 0) { ++st.sink_refused; ++st.fired; } else ++st.not_fired;
    check_outcome(e, r1, false, fdesc, st);
  };
  std::ostream* slot_os = (stream_op && slot >= 0 && slot < vrt::kStreamSlots && g_slots[slot]) ? &g_slots[slot]->os : nullptr;
  if (fault == "alloc2") {
    if (n > 1) e1_alloc(fa % n, false, slot_os, fb % n); else ++st.not_fired;
  } else if (fault == "alloc" || fault == "allocfrom") {
    if (n > 0) e1_alloc(fa % n, fault == "allocfrom", slot_os); else { ++st.not_fired; if (slot_os) { run_once(e, c, seed, p0, p1, slot_os); ++st.execs; } }
  } else if (fault == "alloceach") {
    for (long k = 0; k < n; ++k) { e1_alloc(k, false, nullptr); if (n > 1 && k + 1 < n) e1_alloc(k, true, nullptr); }
    // pairs of failures at two different indices (the first one is often swallowed inside a stream and the call goes on)
    if (n >= 2 && n <= 12) for (long k = 0; k + 1 < n; ++k) for (long k2 = k + 1; k2 < n; ++k2) e1_alloc(k, false, nullptr, k2);
    // ... and triples for calls with few allocations (a printing call inside a stream insertion can swallow two)
    if (n >= 3 && n <= 8) for (long k = 0; k + 2 < n; ++k) for (long k2 = k + 1; k2 + 1 < n; ++k2) for (long k3 = k2 + 1; k3 < n; ++k3) e1_alloc(k, false, nullptr, k2, k3);
  } else if (fault == "sink" && stream_op) {
    e1_sink(len0 >= 0 ? fa % (len0 + 1) : 0, static_cast<int>(fb % 3), static_cast<int>((fb / 3) % 8));
  } else if (fault == "sinkeach" && stream_op) {
    long budgets[] = {0, 1, len0 / 2, len0 > 0 ? len0 - 1 : 0, len0};
    for (long b : budgets) for (int m = 0; m < 3; ++m) e1_sink(b, m, 0);
    e1_sink(len0, 0, 1); e1_sink(len0, 0, 2); e1_sink(len0, 0, 4);
    {  // a stream with no buffer at all (legal; badbit set), and one with width/fill/flags set by the caller
      g_phase = "E1-nullbuf";
      std::ostream nb(nullptr);
      Outcome r1 = run_once(e, c, seed, p0, p1, &nb);
      ++st.execs; ++st.fired; ++st.sink_refused;
      check_outcome(e, r1, false, "sink:nullbuf", st);
      // the caller's exception mask ON with a failing sink: std::ios_base::failure is then the caller's own request and may
      // propagate; what must not happen is std::terminate (a noexcept boundary inside the library) or any other exception
      for (int variant = 0; variant < 6; ++variant) {
        g_phase = "E1-maskon";
        Scratch sm;
        sm.buf.budget = (variant % 3 == 0) ? 0 : (variant % 3 == 1 ? len0 / 2 : (len0 > 0 ? len0 - 1 : 0));
        sm.buf.mode = variant < 3 ? vrt::FaultBuf::kEof : vrt::FaultBuf::kThrow;
        sm.os.exceptions(variant % 2 ? std::ios::badbit : (std::ios::badbit | std::ios::failbit));
        Outcome rm = run_once(e, c, seed, p0, p1, &sm.os);
        ++st.execs;
        if (sm.buf.refused > 0) { ++st.sink_refused; ++st.fired; } else ++st.not_fired;
        char fd[48];
        std::snprintf(fd, sizeof fd, "sink:maskon:%d", variant);
        check_outcome(e, rm, false, fd, st, true);
      }
      for (long w : {-1L, -4L, static_cast<long>(std::numeric_limits<int>::min()), 70000L}) {
        g_phase = "E1-width";
        Scratch sw;
        sw.os.width(static_cast<std::streamsize>(w));   // a negative width is legal: inserters treat it as "no padding"
        if (w == -4) sw.os.setf(std::ios::left, std::ios::adjustfield);
        Outcome rw = run_once(e, c, seed, p0, p1, &sw.os);
        ++st.execs;
        char fd[48];
        std::snprintf(fd, sizeof fd, "sink:width:%ld", w);
        check_outcome(e, rw, false, fd, st);
      }
      {  // floatfield flags, extreme precision and a numpunct facet imbued on the caller's stream itself
        struct StreamPunct : std::numpunct<char> {
          char do_decimal_point() const override { return ','; }
          char do_thousands_sep() const override { return '\''; }
          std::string do_grouping() const override { return "\2\3"; }
        };
        for (int variant = 0; variant < 3; ++variant) {
          g_phase = "E1-flags2";
          Scratch sf;
          if (variant == 0) { sf.os.setf(std::ios::fixed, std::ios::floatfield); sf.os.precision(200); }
          else if (variant == 1) { sf.os.setf(std::ios::fixed | std::ios::scientific, std::ios::floatfield); sf.os.precision(0); sf.os.setf(std::ios::hex, std::ios::basefield); }
          else { sf.os.setf(std::ios::scientific, std::ios::floatfield); sf.os.precision(-1); sf.os.setf(std::ios::boolalpha | std::ios::showbase | std::ios::oct); }
          sf.os.imbue(std::locale(sf.os.getloc(), new StreamPunct));
          Outcome rf = run_once(e, c, seed, p0, p1, &sf.os);
          ++st.execs;
          char fd[48];
          std::snprintf(fd, sizeof fd, "sink:flags2:%d", variant);
          check_outcome(e, rf, false, fd, st);
        }
      }
      g_phase = "E1-flags";
      Scratch s2;
      s2.os.width(40); s2.os.fill('*'); s2.os.setf(std::ios::left | std::ios::showpos | std::ios::uppercase | std::ios::unitbuf); s2.os.precision(2);
      Outcome r2 = run_once(e, c, seed, p0, p1, &s2.os);
      ++st.execs;
      check_outcome(e, r2, false, "sink:flags", st);
    }
  } else if (slot_os) {
    g_phase = "E1-slot";
    Outcome r1 = run_once(e, c, seed, p0, p1, slot_os);
    ++st.execs;
    if (g_slots[slot]->buf.refused > 0) ++st.sink_refused;
    check_outcome(e, r1, false, "slot", st);
  }
  if (fault != "none" && !slot_os) {
    // E2, "once faults stop": the same call again, fault-free, in the process that has just been through every fault
    // above.  State the library may have left half-updated under a fault (a cache entry, a reusable buffer, a
    // function-local static whose first initialisation was interrupted) is then first read here.  Oracle: the
    // property's own (no foreign exception, no invalid enumerator, no sanitizer report); whether the result and the
    // number of allocations equal E0's is counted, not judged.
    g_phase = "E2-after";
    vrt::g_alloc = vrt::AllocState{};
    vrt::g_armed = true;
    Scratch s;
    Outcome r2 = run_once(e, c, seed, p0, p1, &s.os);
    vrt::g_armed = false;
    ++st.execs; ++st.after;
    check_outcome(e, r2, false, "after-faults", st);
    if (r2.cls == 1) ++st.after_bad_alloc;
    if (r2.cls != r0.cls || r2.h != r0.h || vrt::g_alloc.count != n) ++st.after_diverged;
  }
  g_phase = "-";
  say("R %ld %ld ok n=%ld fired=%ld h0=%016llx len=%ld nf=%d\n", g_run, g_opidx, n, fired_total, static_cast<unsigned long long>(r0.h), r0.len, r0.nonfinite ? 1 : 0);
}
}  // namespace

namespace {
// ---- at-exit sweep: ops queued by EXITOP run from the destructor of a namespace-scope object that a generated
// translation unit defines after the library's includes (a user's logger or results writer that prints at exit):
// by then the main thread's thread_local objects and every function-local static constructed during the run
// have already been destroyed.
struct ExitOp { const OpEntry* e; std::uint64_t seed; long idx; };
ExitOp g_exit_queue[256];
int g_nexit = 0;
long g_exit_run = 0;
}  // namespace
namespace vrt {
void run_exit_queue() {
  for (int i = 0; i < g_nexit; ++i) {
    const ExitOp& x = g_exit_queue[i];
    char b[512];
    int n = std::snprintf(b, sizeof b, "B %ld %ld %s\n", g_exit_run, x.idx, x.e->name);
    if (n > 0) { ssize_t w = ::write(1, b, static_cast<size_t>(n)); (void)w; }
    g_phase = "at-exit";
    Ctx c;
    Scratch s;
    Outcome o = run_once_here(*x.e, c, x.seed, -1, -1, &s.os);
    if (o.cls == 2) {
      n = std::snprintf(b, sizeof b, "V %ld %ld foreign-exception:%s fault=at-exit\n", g_exit_run, x.idx, o.type.c_str());
      if (n > 0) { ssize_t w = ::write(1, b, static_cast<size_t>(n)); (void)w; }
    } else if (o.invalid_enum) {
      n = std::snprintf(b, sizeof b, "V %ld %ld invalid-enum fault=at-exit\n", g_exit_run, x.idx);
      if (n > 0) { ssize_t w = ::write(1, b, static_cast<size_t>(n)); (void)w; }
    }
    n = std::snprintf(b, sizeof b, "R %ld %ld ok n=0 fired=0 h0=%016llx len=%ld nf=0\n", g_exit_run, x.idx, static_cast<unsigned long long>(o.h), o.len);
    if (n > 0) { ssize_t w = ::write(1, b, static_cast<size_t>(n)); (void)w; }
  }
}
}  // namespace vrt

int main(int argc, char** argv) {
  std::set_terminate(on_terminate);
  std::map<std::string, const OpEntry*> byname;
  long total = 0;
  for (int t = 0; t < vrt::g_ntables; ++t)
    for (int i = 0; i < vrt::g_tables[t].count; ++i) {
      byname[vrt::g_tables[t].entries[i].name] = &vrt::g_tables[t].entries[i];
      ++total;
    }
  if (argc > 1 && std::string(argv[1]) == "--list") {
    for (int t = 0; t < vrt::g_ntables; ++t)
      for (int i = 0; i < vrt::g_tables[t].count; ++i) std::printf("%s\t%d\n", vrt::g_tables[t].entries[i].name, vrt::g_tables[t].entries[i].flags);
    return 0;
  }
  Stats st;
  std::string line;
  while (std::getline(std::cin, line)) {
    std::istringstream is(line);
    std::string cmd;
    is >> cmd;
    if (cmd == "RUN") {
      long start = 0;
      is >> g_run;
      if (!(is >> start)) start = 0;
      g_opidx = start;
      for (int s = 0; s < vrt::kStreamSlots; ++s) reset_slot(s, -1, 0, 0, 0);
      std::fesetround(FE_TONEAREST);
      std::locale::global(std::locale::classic());
    } else if (cmd == "CFG") {
      int slot = 0, mode = 0, state = 0;
      long budget = -1;
      unsigned flags = 0;
      is >> slot >> budget >> mode >> state >> flags;
      say("B %ld %ld CFG\n", g_run, g_opidx);
      reset_slot(((slot % vrt::kStreamSlots) + vrt::kStreamSlots) % vrt::kStreamSlots, budget, mode % 3, state % 8, flags);
      say("R %ld %ld ok n=0 fired=0 h0=0 len=0 nf=0\n", g_run, g_opidx);
      ++g_opidx;
    } else if (cmd == "PAIR") {
      // true concurrency (ThreadSanitizer build): two threads, started together and joined together, each makes its
      // own call `reps` times on its own operands.  TSan's happens-before analysis reports conflicting unsynchronised
      // accesses whatever the actual interleaving was, so the verdict does not depend on timing.
      std::string na, nb;
      unsigned long long sa = 0, sb = 0;
      long reps = 1;
      is >> na >> sa >> nb >> sb >> reps;
      auto ia = byname.find(na), ib = byname.find(nb);
      if (ia == byname.end() || ib == byname.end()) {
        say("U %ld %ld %s\n", g_run, g_opidx, (ia == byname.end() ? na : nb).c_str());
      } else {
        say("B %ld %ld %s\n", g_run, g_opidx, na.c_str());
        g_phase = "pair";
        Outcome oa, ob;
        auto body = [reps](const OpEntry* e, unsigned long long seed, Outcome* out) {
          Ctx c;
          for (long i = 0; i < reps; ++i) {
            Scratch s;
            *out = run_once_here(*e, c, seed + static_cast<unsigned long long>(i) * 0x9E3779B97F4A7C15ULL, -1, -1, &s.os);
            if (out->cls == 2) break;
          }
        };
        std::thread ta(body, ia->second, sa, &oa);
        std::thread tb(body, ib->second, sb, &ob);
        ta.join();
        tb.join();
        st.execs += 2 * reps;
        if (oa.cls == 2) check_outcome(*ia->second, oa, false, "pair", st);
        if (ob.cls == 2) check_outcome(*ib->second, ob, false, "pair", st);
        g_phase = "-";
        say("R %ld %ld ok n=0 fired=0 h0=%016llx len=%ld nf=0\n", g_run, g_opidx, static_cast<unsigned long long>(oa.h ^ ob.h), oa.len + ob.len);
      }
      ++g_opidx;
    } else if (cmd == "EXITOP") {
      std::string name;
      unsigned long long seed = 0;
      is >> name >> seed;
      auto it = byname.find(name);
      if (it == byname.end()) {
        say("U %ld %ld %s\n", g_run, g_opidx, name.c_str());
      } else if (g_nexit < 256) {
        g_exit_queue[g_nexit++] = ExitOp{it->second, seed, g_opidx};
        g_exit_run = g_run;
      }
      ++g_opidx;
    } else if (cmd == "MODE") {
      // ambient floating-point state left by the caller: rounding mode for the rest of this run
      int m = 0;
      is >> m;
      static const int modes[] = {FE_TONEAREST, FE_UPWARD, FE_DOWNWARD, FE_TOWARDZERO};
      say("B %ld %ld MODE\n", g_run, g_opidx);
      if (m >= 0 && m < 4) {
        std::fesetround(modes[m]);
      } else if (m == 4) {
        // the caller's C++ global locale: digit grouping, a comma as decimal point (streams created from now on use it)
        struct Punct : std::numpunct<char> {
          char do_decimal_point() const override { return ','; }
          char do_thousands_sep() const override { return '.'; }
          std::string do_grouping() const override { return "\3"; }
          std::string do_truename() const override { return "wahr"; }
          std::string do_falsename() const override { return "falsch"; }
        };
        std::locale::global(std::locale(std::locale::classic(), new Punct));
      }
      say("R %ld %ld ok n=0 fired=0 h0=0 len=0 nf=0\n", g_run, g_opidx);
      ++g_opidx;
    } else if (cmd == "REP") {
      // endurance: the same call repeated many times in this process (same seed, or a new seed every time),
      // fault-free: exposes counters that wrap, caches that fill up, buffers that grow
      std::string name;
      unsigned long long seed = 0, vary = 0;
      long n = 0;
      is >> name >> seed >> n >> vary;
      auto it = byname.find(name);
      if (it == byname.end()) {
        say("U %ld %ld %s\n", g_run, g_opidx, name.c_str());
      } else {
        say("B %ld %ld %s\n", g_run, g_opidx, name.c_str());
        g_phase = "rep";
        vrt::g_armed = false;
        vrt::Ctx c;
        c.small_sizes = true;
        Outcome last;
        for (long i = 0; i < n; ++i) {
          Scratch s;
          last = run_once(*it->second, c, seed + static_cast<unsigned long long>(i) * vary, -1, -1, &s.os);
          ++st.execs;
          if (last.cls == 2 || last.invalid_enum) {
            char fd[48];
            std::snprintf(fd, sizeof fd, "rep:%ld", i);
            check_outcome(*it->second, last, false, fd, st);
            break;
          }
        }
        g_phase = "-";
        say("R %ld %ld ok n=0 fired=0 h0=%016llx len=%ld nf=0\n", g_run, g_opidx, static_cast<unsigned long long>(last.h), last.len);
      }
      ++g_opidx;
    } else if (cmd == "OP") {
      std::string name, fault;
      unsigned long long seed = 0;
      long p0 = -1, p1 = -1, fa = 0, fb = 0;
      int slot = -1, vc = -1, thr = 0;
      is >> name >> seed >> p0 >> p1 >> slot >> fault >> fa >> fb;
      if (!(is >> vc)) vc = -1;
      if (!(is >> thr)) thr = 0;
      g_in_thread = thr != 0;
      auto it = byname.find(name);
      if (it == byname.end()) {
        say("U %ld %ld %s\n", g_run, g_opidx, name.c_str());
      } else {
        say("B %ld %ld %s\n", g_run, g_opidx, name.c_str());
        execute(*it->second, seed, p0, p1, slot, fault, fa, fb, vc, st);
      }
      g_in_thread = false;
      ++g_opidx;
    } else if (cmd == "END") {
      say("E %ld\n", g_run);
    }
  }
  say("S execs=%ld fired=%ld not_fired=%ld bad_alloc=%ld silent=%ld sink_refused=%ld viol=%ld nonfinite=%ld spontaneous=%ld after=%ld after_diverged=%ld after_bad_alloc=%ld ops=%ld\n", st.execs, st.fired, st.not_fired,
      st.bad_alloc, st.silent, st.sink_refused, st.viol, st.nonfinite, st.spontaneous_bad_alloc, st.after, st.after_diverged, st.after_bad_alloc, total);
  return 0;
}
