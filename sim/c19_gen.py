"""C19 plan generator: turns a seed into *programs* (sets of translation units with pre-main probes)
and *schedules* (compiler, flags, packaging, link order).  Plans are plain data containing the
literal C++ snippets, so replay never depends on this generator or on the PRNG."""
from .catalogue import SHAPES, NUMERIC
from .common import Rng

ACCESSOR = {"Scalar": "", "PlanarVector": ".x_y()", "Vector": ".x_y_z()",
            "SymmetricDyad": ".xx_xy_xz_yy_yz_zz()", "Dyad": ".xx_xy_xz_yx_yy_yz_zx_zy_zz()"}
# facility tags (used in reports and in KNOWN_FINDINGS keys)
DISPATCH = "runtime-conversion-dispatch"
FACILITY = {"abbr": "abbreviations", "stream-enum": "abbreviations", "parse": "spellings",
            "consistent": "consistent-units", "related": "related-unit-systems",
            "ctor-unit": DISPATCH, "value-unit": DISPATCH, "print-unit": DISPATCH, "ser-unit": DISPATCH,
            "stream-q": DISPATCH, "print-std": DISPATCH, "compare": DISPATCH,
            "convert": DISPATCH, "convert-inplace": DISPATCH, "static": "none", "plain": "none",
            "system": "unit-system-tables", "model": "model-tables", "dims": "none",
            "misc": "none", "const-literal": "none",
            "abbr-all": "abbreviations", "related-all": "related-unit-systems", "parse-all": "spellings",
            "consistent-all": "consistent-units", "convert-all": DISPATCH, "quantity-all": DISPATCH}
TABLE_KINDS = {k for k, v in FACILITY.items() if v != "none"}

VALUES = ["1.0", "2.0", "-3.5", "0.125", "1234.5", "6.0e-5", "-98765.25", "0.75", "42.0", "1.0e7"]
SUFFIX = {"float": "F", "double": "", "long double": "L"}


def cstr(s):
    """python str (as it appeared between quotes in the header, escapes intact) -> C++ literal"""
    return '"' + s + '"'


class ProbeGen:
    def __init__(self, cat, rng):
        self.cat = cat
        self.rng = rng

    # -- operands -------------------------------------------------------------------------------
    def val(self, T):
        return "vrt::V<%s>(%s%s)" % (T, self.rng.choice(VALUES), SUFFIX[T])

    def shape_value(self, shape, T):
        n = SHAPES[shape]
        if n == 1:
            return self.val(T)
        return "PhQ::%s<%s>{%s}" % (shape, T, ", ".join(self.val(T) for _ in range(n)))

    def enum(self, U, e):
        return "PhQ::Unit::%s::%s" % (U, e)

    def pick_enum(self, U, nonstandard=False):
        es = self.cat.units[U]["enumerators"]
        if nonstandard and len(es) > 1:
            # the standard unit skips the dispatch table; we do not know which enumerator is
            # standard without parsing tables, so draw two different ones where it matters
            return self.rng.choice(es)
        return self.rng.choice(es)

    def two_enums(self, U):
        es = self.cat.units[U]["enumerators"]
        if len(es) < 2:
            return es[0], es[0]
        a = self.rng.below(len(es))
        b = (a + 1 + self.rng.below(len(es) - 1)) % len(es)
        return es[a], es[b]

    def q(self, Q, T, e):
        """expression constructing quantity Q<T> from a value in unit e (exercises ToStandard dispatch)"""
        return "PhQ::%s<%s>{%s, %s}" % (Q["name"], T, self.shape_value(Q["shape"], T), self.enum(Q["unit"], e))

    # -- probes: each returns dict(kind, facility, needs=[headers], body=C++ statements returning std::string)
    def mk(self, kind, needs, body, note):
        return {"kind": kind, "facility": FACILITY[kind], "needs": sorted(set(needs)), "body": body, "note": note}

    def abbr(self, U, e=None):
        e = e or self.pick_enum(U)
        return self.mk("abbr", [self.cat.units[U]["header"]],
                       "return vrt::c(PhQ::Abbreviation(%s));" % self.enum(U, e), "%s::%s" % (U, e))

    def stream_enum(self, U, e=None):
        e = e or self.pick_enum(U)
        return self.mk("stream-enum", [self.cat.units[U]["header"]],
                       "return vrt::cs([](std::ostream& os) { os << %s; });" % self.enum(U, e), "%s::%s" % (U, e))

    def parse(self, U, lit=None):
        lits = self.cat.units[U]["literals"]
        lit = lit if lit is not None else self.rng.choice(lits)
        return self.mk("parse", [self.cat.units[U]["header"]],
                       "return vrt::c(PhQ::ParseEnumeration<PhQ::Unit::%s>(%s));" % (U, cstr(lit)), "%s %s" % (U, lit))

    def consistent(self, U, s=None):
        s = s or self.rng.choice(self.cat.unit_systems)
        return self.mk("consistent", [self.cat.units[U]["header"]],
                       "return vrt::c(PhQ::ConsistentUnit<PhQ::Unit::%s>(PhQ::UnitSystem::%s));" % (U, s), "%s %s" % (U, s))

    def related(self, U, e=None):
        e = e or self.pick_enum(U)
        return self.mk("related", [self.cat.units[U]["header"]],
                       "return vrt::c(PhQ::RelatedUnitSystem(%s));" % self.enum(U, e), "%s::%s" % (U, e))

    def ctor_unit(self, Q, T, e=None):
        e = e or self.pick_enum(Q["unit"])
        typ = "PhQ::%s<%s>" % (Q["name"], T)
        init = "{%s, %s}" % (self.shape_value(Q["shape"], T), self.enum(Q["unit"], e))
        read = ".Value()" + ACCESSOR[Q["shape"]]
        p = self.mk("ctor-unit", [Q["header"]], "return vrt::c(%s%s%s);" % (typ, init, read),
                    "%s<%s> from %s" % (Q["name"], T, e))
        # lets the literal form be exactly what the property names: `const PhQ::Length<> x{1.0, Foot};`
        p["object"] = {"type": typ, "init": init, "read": read}
        return p

    def value_unit(self, Q, T, e1=None, e2=None):
        a, b = self.two_enums(Q["unit"])
        e1, e2 = e1 or a, e2 or b
        return self.mk("value-unit", [Q["header"]],
                       "return vrt::c(%s.Value(%s)%s);" % (self.q(Q, T, e1), self.enum(Q["unit"], e2), ACCESSOR[Q["shape"]]),
                       "%s<%s> %s->%s" % (Q["name"], T, e1, e2))

    def print_unit(self, Q, T, fn=None, e1=None, e2=None):
        a, b = self.two_enums(Q["unit"])
        e1, e2 = e1 or a, e2 or b
        fn = fn or self.rng.choice(["Print", "JSON", "XML", "YAML"])
        kind = "print-unit" if fn == "Print" else "ser-unit"
        return self.mk(kind, [Q["header"]],
                       "return vrt::c(%s.%s(%s));" % (self.q(Q, T, e1), fn, self.enum(Q["unit"], e2)),
                       "%s<%s>.%s %s->%s" % (Q["name"], T, fn, e1, e2))

    def print_std(self, Q, T, fn=None):
        fn = fn or self.rng.choice(["Print", "JSON", "XML", "YAML"])
        e = self.pick_enum(Q["unit"])
        return self.mk("print-std", [Q["header"]], "return vrt::c(%s.%s());" % (self.q(Q, T, e), fn),
                       "%s<%s>.%s()" % (Q["name"], T, fn))

    def stream_q(self, Q, T):
        e = self.pick_enum(Q["unit"])
        return self.mk("stream-q", [Q["header"]],
                       "return vrt::cs([](std::ostream& os) { os << %s; });" % self.q(Q, T, e), "os << %s<%s>" % (Q["name"], T))

    def compare(self, Q, T):
        a, b = self.two_enums(Q["unit"])
        op = self.rng.choice(["==", "!=", "<", ">", "<=", ">="])
        return self.mk("compare", [Q["header"]],
                       "return vrt::c(%s %s %s);" % (self.q(Q, T, a), op, self.q(Q, T, b)), "%s<%s> %s" % (Q["name"], T, op))

    def convert(self, U, T, container=None):
        a, b = self.two_enums(U)
        container = container or self.rng.choice(["scalar", "array", "vector", "PlanarVector", "Vector", "SymmetricDyad", "Dyad"])
        ea, eb = self.enum(U, a), self.enum(U, b)
        hdr = [self.cat.units[U]["header"]]
        if container == "scalar":
            body = "return vrt::c(PhQ::Convert(%s, %s, %s));" % (self.val(T), ea, eb)
        elif container == "array":
            n = self.rng.rng(1, 5)
            body = "return vrt::c(PhQ::Convert(std::array<%s, %d>{%s}, %s, %s));" % (
                T, n, ", ".join(self.val(T) for _ in range(n)), ea, eb)
        elif container == "vector":
            n = self.rng.rng(0, 6)
            body = "return vrt::c(PhQ::Convert(std::vector<%s>{%s}, %s, %s));" % (
                T, ", ".join(self.val(T) for _ in range(n)), ea, eb)
        else:
            body = "return vrt::c(PhQ::Convert(%s, %s, %s)%s);" % (self.shape_value(container, T), ea, eb, ACCESSOR[container])
        return self.mk("convert", hdr, body, "Convert<%s,%s> %s %s->%s" % (U, T, container, a, b))

    def convert_inplace(self, U, T):
        a, b = self.two_enums(U)
        container = self.rng.choice(["scalar", "array", "vector", "Vector"])
        ea, eb = self.enum(U, a), self.enum(U, b)
        if container == "scalar":
            body = "%s x = %s; PhQ::ConvertInPlace(x, %s, %s); return vrt::c(x);" % (T, self.val(T), ea, eb)
        elif container == "array":
            body = "std::array<%s, 3> x{%s}; PhQ::ConvertInPlace(x, %s, %s); return vrt::c(x);" % (
                T, ", ".join(self.val(T) for _ in range(3)), ea, eb)
        elif container == "vector":
            body = "std::vector<%s> x{%s}; PhQ::ConvertInPlace(x, %s, %s); return vrt::c(x);" % (
                T, ", ".join(self.val(T) for _ in range(4)), ea, eb)
        else:
            body = "PhQ::Vector<%s> x{%s}; PhQ::ConvertInPlace(x, %s, %s); return vrt::c(x.x_y_z());" % (
                T, ", ".join(self.val(T) for _ in range(3)), ea, eb)
        return self.mk("convert-inplace", [self.cat.units[U]["header"]], body,
                       "ConvertInPlace<%s,%s> %s %s->%s" % (U, T, container, a, b))

    def static(self, Q, T):
        e = self.pick_enum(Q["unit"])
        n = SHAPES[Q["shape"]]
        if Q["shape"] == "Scalar":
            args = self.val(T)
        else:
            args = "PhQ::%s<%s>{%s}" % (Q["shape"], T, ", ".join(self.val(T) for _ in range(n)))
        return self.mk("static", [Q["header"]],
                       "return vrt::c(PhQ::%s<%s>::Create<%s>(%s).StaticValue<%s>()%s);" % (
                           Q["name"], T, self.enum(Q["unit"], e), args, self.enum(Q["unit"], self.pick_enum(Q["unit"])),
                           ACCESSOR[Q["shape"]]),
                       "%s<%s>::Create<%s>" % (Q["name"], T, e))

    def plain(self, Q, T):
        e = self.pick_enum(Q["unit"])
        n = SHAPES[Q["shape"]]
        if Q["shape"] == "Scalar":
            args = self.val(T)
        else:
            args = "PhQ::%s<%s>{%s}" % (Q["shape"], T, ", ".join(self.val(T) for _ in range(n)))
        a = "PhQ::%s<%s>::Create<%s>(%s)" % (Q["name"], T, self.enum(Q["unit"], e), args)
        which = self.rng.below(3)
        if which == 0:
            body = "return vrt::c((%s + %s) == %s);" % (a, a, a)
        elif which == 1:
            body = "return vrt::c(std::hash<PhQ::%s<%s>>()(%s));" % (Q["name"], T, a)
        else:
            body = "return vrt::c(((%s) * %s).Value()%s);" % (a, self.val(T), ACCESSOR[Q["shape"]])
        return self.mk("plain", [Q["header"]], body, "%s<%s> plain" % (Q["name"], T))

    def dims(self, Q, T):
        return self.mk("dims", [Q["header"]], "return vrt::c(PhQ::%s<%s>::Dimensions().Print());" % (Q["name"], T),
                       "%s dims" % Q["name"])

    def system(self):
        w = self.rng.below(3)
        if w == 0:
            s = self.rng.choice(self.cat.unit_systems)
            body = "return vrt::c(PhQ::Abbreviation(PhQ::UnitSystem::%s));" % s
        elif w == 1:
            body = "return vrt::c(PhQ::ParseEnumeration<PhQ::UnitSystem>(%s));" % cstr(self.rng.choice(self.cat.us_literals))
        else:
            s = self.rng.choice(self.cat.unit_systems)
            body = "return vrt::cs([](std::ostream& os) { os << PhQ::UnitSystem::%s; });" % s
        return self.mk("system", ["PhQ/UnitSystem.hpp"], body, "unit system")

    def model(self, which=None, pick=None):
        T = self.rng.choice(NUMERIC)
        w = self.rng.below(4) if which is None else which
        # the enumeration of model types, its names and its spellings are declared by the base header alone: a TU that uses
        # only those includes only that header (whatever the concrete-model headers add reaches it from other TUs, or not)
        hdrs = ["PhQ/ConstitutiveModel.hpp"] if w in (0, 1) else ["PhQ/ConstitutiveModel/ElasticIsotropicSolid.hpp", "PhQ/ConstitutiveModel/IncompressibleNewtonianFluid.hpp"]
        solid = ("PhQ::ConstitutiveModel::ElasticIsotropicSolid<%s>{PhQ::YoungModulus<%s>{%s, PhQ::Unit::Pressure::%s}, "
                 "PhQ::PoissonRatio<%s>{vrt::V<%s>(0.25%s)}}" % (
                     T, T, "vrt::V<%s>(200.0%s)" % (T, SUFFIX[T]), self.rng.choice(self.cat.units["Pressure"]["enumerators"]),
                     T, T, SUFFIX[T]))
        if w == 0:
            body = "return vrt::c(PhQ::Abbreviation(PhQ::ConstitutiveModel::Type::%s));" % (pick or self.rng.choice(self.cat.model_types))
        elif w == 1:
            body = "return vrt::c(PhQ::ParseEnumeration<PhQ::ConstitutiveModel::Type>(%s));" % cstr(pick if pick is not None else self.rng.choice(self.cat.model_literals))
        elif w == 2:
            body = "return vrt::c(%s.%s());" % (solid, self.rng.choice(["Print", "JSON", "XML", "YAML"]))
        else:
            body = ("const auto m = %s; return vrt::cs([&m](std::ostream& os) { os << static_cast<const PhQ::ConstitutiveModel&>(m); });" % solid)
        return self.mk("model", hdrs, body, "model")

    def misc(self):
        """facilities that rely on no library table today (control group); a table added behind one of
        them by a later change would make them order-dependent"""
        T = self.rng.choice(NUMERIC)
        v = lambda: self.val(T)
        w = self.rng.below(9)
        hdr = ["PhQ/Base.hpp", "PhQ/Vector.hpp", "PhQ/Dyad.hpp", "PhQ/SymmetricDyad.hpp", "PhQ/PlanarVector.hpp", "PhQ/Dimensions.hpp", "PhQ/Direction.hpp", "PhQ/Angle.hpp"]
        if w == 0:
            body = "return vrt::c(PhQ::Print(%s)) + vrt::c(PhQ::Print(%s * static_cast<%s>(1.0e-5))) + vrt::c(PhQ::Print(%s * static_cast<%s>(1.0e7)));" % (v(), v(), T, v(), T)
        elif w == 1:
            body = "return vrt::c(PhQ::ParseNumber<%s>(PhQ::Print(%s))) + vrt::c(PhQ::ParseNumber<%s>(\"abc\")) + vrt::c(PhQ::ParseNumber<%s>(\"1e999\"));" % (T, v(), T, T)
        elif w == 2:
            body = "return vrt::c(PhQ::SnakeCase(\"Elastic Isotropic Solid\")) + vrt::c(PhQ::Uppercase(\"m/s\")) + vrt::c(PhQ::Lowercase(\"Kg\"));"
        elif w == 3:
            body = "const PhQ::Vector<%s> a{%s, %s, %s}; const PhQ::Vector<%s> b{%s, %s, %s}; return vrt::c(a.Print()) + vrt::c(a.Magnitude()) + vrt::c(a.Angle(b).Value()) + vrt::c(a.Direction().Value().x_y_z()) + vrt::c(a.Cross(b).JSON());" % (T, v(), v(), v(), T, v(), v(), v())
        elif w == 4:
            body = "const PhQ::Dyad<%s> d{%s}; const auto inv = d.Inverse(); return vrt::c(d.YAML()) + vrt::c(d.Determinant()) + vrt::c(inv.has_value()) + vrt::cs([&d](std::ostream& os) { os << d; });" % (T, ", ".join(v() for _ in range(9)))
        elif w == 5:
            body = "const PhQ::SymmetricDyad<%s> d{%s}; return vrt::c(d.XML()) + vrt::c(d.Trace()) + vrt::c(std::hash<PhQ::SymmetricDyad<%s>>()(d));" % (T, ", ".join(v() for _ in range(6)), T)
        elif w == 6:
            body = ("const PhQ::Dimensions d{PhQ::Dimension::Time{-2}, PhQ::Dimension::Length{1}, PhQ::Dimension::Mass{1}, PhQ::Dimension::ElectricCurrent{0}, "
                    "PhQ::Dimension::Temperature{0}, PhQ::Dimension::SubstanceAmount{0}, PhQ::Dimension::LuminousIntensity{0}}; "
                    "return vrt::c(d.Print()) + vrt::c(d.JSON()) + vrt::c(d.XML()) + vrt::c(d.YAML()) + vrt::c(std::hash<PhQ::Dimensions>()(d)) + vrt::cs([&d](std::ostream& os) { os << d; });")
        elif w == 7:
            body = "const PhQ::PlanarVector<%s> a{%s, %s}; return vrt::c(a.Print()) + vrt::c(a.PlanarDirection().Value().x_y()) + vrt::c(a.Magnitude());" % (T, v(), v())
        else:
            body = "const PhQ::Direction<%s> d{%s, %s, %s}; return vrt::c(d.Print()) + vrt::c(d.Magnitude()) + vrt::cs([&d](std::ostream& os) { os << d; });" % (T, v(), v(), v())
        return self.mk("misc", hdr, body, "table-free facility %d <%s>" % (w, T))

    def const_literal(self):
        """an object whose initialiser has only LITERAL operands, as users write them (`const auto d = Direction{1.0, 1.0, 0.0};`):
        where the library's code is constexpr the compiler constant-initialises it, i.e. evaluates the library at compile
        time; main() evaluates the same expression on run-time (volatile-laundered) operands.  Both must agree."""
        T = self.rng.choice(NUMERIC)
        lits = [self.rng.choice(VALUES) for _ in range(12)]
        k = [0]

        def operands(n):
            out = lits[k[0]:k[0] + n]
            k[0] += n
            return out

        def both(fmt, n):
            ops = operands(n)
            lit = fmt % tuple("static_cast<%s>(%s%s)" % (T, v, SUFFIX[T]) for v in ops)
            vol = fmt % tuple("vrt::V<%s>(%s%s)" % (T, v, SUFFIX[T]) for v in ops)
            return lit, vol
        w = self.rng.below(10)
        hdr = ["PhQ/Base.hpp", "PhQ/Vector.hpp", "PhQ/Dyad.hpp", "PhQ/SymmetricDyad.hpp", "PhQ/PlanarVector.hpp", "PhQ/Direction.hpp",
               "PhQ/PlanarDirection.hpp", "PhQ/Angle.hpp"]
        if w == 0:
            lit, vol = both("PhQ::Direction<" + T + ">{%s, %s, %s}", 3); read = ".Value().x_y_z()"; note = "Direction"
        elif w == 1:
            lit, vol = both("PhQ::PlanarDirection<" + T + ">{%s, %s}", 2); read = ".Value().x_y()"; note = "PlanarDirection"
        elif w == 2:
            lit, vol = both("PhQ::Vector<" + T + ">{%s, %s, %s}.Magnitude()", 3); read = ""; note = "Vector::Magnitude"
        elif w == 3:
            lit, vol = both("PhQ::PlanarVector<" + T + ">{%s, %s}.Magnitude()", 2); read = ""; note = "PlanarVector::Magnitude"
        elif w == 4:
            lit, vol = both("PhQ::Vector<" + T + ">{%s, %s, %s}.Cross(PhQ::Vector<" + T + ">{%s, %s, %s})", 6); read = ".x_y_z()"; note = "Vector::Cross"
        elif w == 5:
            lit, vol = both("PhQ::Dyad<" + T + ">{%s, %s, %s, %s, %s, %s, %s, %s, %s}.Determinant()", 9); read = ""; note = "Dyad::Determinant"
        elif w == 6:
            lit, vol = both("PhQ::SymmetricDyad<" + T + ">{%s, %s, %s, %s, %s, %s}.Cofactors()", 6); read = ".xx_xy_xz_yy_yz_zz()"; note = "SymmetricDyad::Cofactors"
        else:
            # compile-time unit machinery: Create<Unit>, StaticValue<Unit>, ConvertStatically, arithmetic (double: guaranteed to compile)
            T = "double"
            U = self.rng.choice(sorted(self.cat.units))
            qs = [q for q in self.cat.quantities_of_unit(U) if q["shape"] == "Scalar"]
            a, b = self.two_enums(U)
            ea, eb = self.enum(U, a), self.enum(U, b)
            if w == 7 or not qs:
                lit, vol = both("PhQ::ConvertStatically<PhQ::Unit::" + U + ", " + ea + ", " + eb + ">(%s)", 1); read = ""; note = "ConvertStatically<%s>" % U
            elif w == 8:
                Q = self.rng.choice(qs)
                lit, vol = both("PhQ::" + Q["name"] + "<double>::Create<" + ea + ">(%s).StaticValue<" + eb + ">()", 1); read = ""; note = "%s Create/StaticValue" % Q["name"]
                hdr = [Q["header"]]
            else:
                Q = self.rng.choice(qs)
                lit, vol = both("(PhQ::" + Q["name"] + "<double>::Create<" + ea + ">(%s) + PhQ::" + Q["name"] + "<double>::Create<" + eb + ">(%s)) * %s", 3)
                read = ".Value()"; note = "%s arithmetic" % Q["name"]
                hdr = [Q["header"]]
            hdr = hdr + [self.cat.units[U]["header"]]
        p = self.mk("const-literal", hdr, "return vrt::c((%s)%s);" % (vol, read), "literal operands: %s<%s>" % (note, T))
        p["object"] = {"type": "auto", "init": " = %s" % lit, "read": read}
        p["force_literal"] = True
        return p

    # -- batch probes: one probe walks every enumerator / literal of a unit type (exhaustive, cheap to compile)
    def abbr_all(self, U):
        es = ", ".join(self.enum(U, e) for e in self.cat.units[U]["enumerators"])
        body = ("std::string r; for (const auto e : {%s}) { r += vrt::c(PhQ::Abbreviation(e)); r += vrt::cs([e](std::ostream& os) { os << e; }); } return r;" % es)
        return self.mk("abbr-all", [self.cat.units[U]["header"]], body, "%s all enumerators" % U)

    def related_all(self, U):
        es = ", ".join(self.enum(U, e) for e in self.cat.units[U]["enumerators"])
        body = "std::string r; for (const auto e : {%s}) r += vrt::c(PhQ::RelatedUnitSystem(e)); return r;" % es
        return self.mk("related-all", [self.cat.units[U]["header"]], body, "%s all enumerators" % U)

    def parse_all(self, U):
        lits = ", ".join("std::string_view(%s)" % cstr(l) for l in self.cat.units[U]["literals"])
        body = "std::string r; for (const std::string_view s : {%s}) r += vrt::c(PhQ::ParseEnumeration<PhQ::Unit::%s>(s)); return r;" % (lits, U)
        return self.mk("parse-all", [self.cat.units[U]["header"]], body, "%s all literals" % U)

    def consistent_all(self, U):
        ss = ", ".join("PhQ::UnitSystem::%s" % s for s in self.cat.unit_systems)
        body = "std::string r; for (const auto s : {%s}) r += vrt::c(PhQ::ConsistentUnit<PhQ::Unit::%s>(s)); return r;" % (ss, U)
        return self.mk("consistent-all", [self.cat.units[U]["header"]], body, "%s all unit systems" % U)

    def convert_all(self, U, T):
        es = self.cat.units[U]["enumerators"]
        lst = ", ".join(self.enum(U, e) for e in es)
        body = ("const PhQ::Unit::%s es[] = {%s}; const int n = %d; std::string r; %s x = %s; "
                "for (int i = 0; i < n; ++i) { r += vrt::c(PhQ::Convert(x, es[i], es[(i + 1) %% n])); "
                "std::vector<%s> v{x, x}; PhQ::ConvertInPlace(v, es[(i + 2) %% n], es[i]); r += vrt::c(v); } return r;" % (
                    U, lst, len(es), T, self.val(T), T))
        return self.mk("convert-all", [self.cat.units[U]["header"]], body, "Convert<%s,%s> all enumerators both directions" % (U, T))

    def quantity_all(self, Q, T):
        U = Q["unit"]
        es = self.cat.units[U]["enumerators"]
        lst = ", ".join(self.enum(U, e) for e in es)
        body = ("const PhQ::Unit::%s es[] = {%s}; const int n = %d; std::string r; "
                "for (int i = 0; i < n; ++i) { const PhQ::%s<%s> q{%s, es[i]}; r += vrt::c(q.Value(es[(i + 1) %% n])%s); "
                "r += vrt::c(q.Print(es[(i + 3) %% n])); } return r;" % (
                    U, lst, len(es), Q["name"], T, self.shape_value(Q["shape"], T), ACCESSOR[Q["shape"]]))
        return self.mk("quantity-all", [Q["header"]], body, "%s<%s> every unit in and out" % (Q["name"], T))

    # -- seeded draw of one probe about unit type U ---------------------------------------------
    def random_probe(self, U, kinds=None):
        qs = self.cat.quantities_of_unit(U)
        T = self.rng.choice(NUMERIC)
        kinds = kinds or ["abbr", "stream-enum", "parse", "consistent", "related", "ctor-unit", "ctor-unit", "value-unit",
                          "value-unit", "print-unit", "ser-unit", "print-std", "stream-q", "compare", "convert", "convert",
                          "convert-inplace", "static", "plain", "dims"]
        k = self.rng.choice(kinds)
        if k in ("ctor-unit", "value-unit", "print-unit", "ser-unit", "print-std", "stream-q", "compare", "static", "plain", "dims") and not qs:
            k = "convert"
        Q = self.rng.choice(qs) if qs else None
        if k == "abbr": return self.abbr(U)
        if k == "stream-enum": return self.stream_enum(U)
        if k == "parse": return self.parse(U)
        if k == "consistent": return self.consistent(U)
        if k == "related": return self.related(U)
        if k == "ctor-unit": return self.ctor_unit(Q, T)
        if k == "value-unit": return self.value_unit(Q, T)
        if k == "print-unit": return self.print_unit(Q, T, "Print")
        if k == "ser-unit": return self.print_unit(Q, T, self.rng.choice(["JSON", "XML", "YAML"]))
        if k == "print-std": return self.print_std(Q, T)
        if k == "stream-q": return self.stream_q(Q, T)
        if k == "compare": return self.compare(Q, T)
        if k == "convert": return self.convert(U, T)
        if k == "convert-inplace": return self.convert_inplace(U, T)
        if k == "static": return self.static(Q, "double")
        if k == "plain": return self.plain(Q, "double")
        return self.dims(Q, T)

    # -- the covering set for one unit type: every table kind, every numeric type ---------------
    def covering(self, U):
        es = self.cat.units[U]["enumerators"]
        lits = self.cat.units[U]["literals"]
        out = [self.abbr_all(U), self.related_all(U), self.parse_all(U), self.consistent_all(U)]
        for T in NUMERIC:
            out.append(self.convert_all(U, T))
        for Q in self.cat.quantities_of_unit(U):
            out.append(self.quantity_all(Q, self.rng.choice(NUMERIC)))
        picks = [es[0], es[-1], self.rng.choice(es)]
        for e in dict.fromkeys(picks):
            out.append(self.abbr(U, e))
            out.append(self.related(U, e))
        out.append(self.stream_enum(U))
        for l in dict.fromkeys([lits[0], lits[-1], self.rng.choice(lits)]):
            out.append(self.parse(U, l))
        for s in self.cat.unit_systems:
            out.append(self.consistent(U, s))
        qs = self.cat.quantities_of_unit(U)
        for T in NUMERIC:
            # both dispatch tables of <U,T>, twice each with different enumerator pairs so that at
            # least one pair avoids the standard unit (which bypasses the table)
            out.append(self.convert(U, T, "scalar"))
            out.append(self.convert(U, T))
            out.append(self.convert_inplace(U, T))
            if qs:
                Q = self.rng.choice(qs)
                out.append(self.ctor_unit(Q, T, es[-1]))
                out.append(self.ctor_unit(self.rng.choice(qs), T))
                out.append(self.value_unit(Q, T))
                out.append(self.print_unit(self.rng.choice(qs), T))
                out.append(self.print_std(self.rng.choice(qs), T))
        if qs:
            out.append(self.stream_q(self.rng.choice(qs), self.rng.choice(NUMERIC)))
            out.append(self.compare(self.rng.choice(qs), self.rng.choice(NUMERIC)))
            out.append(self.static(self.rng.choice(qs), "double"))
        return out


TWIN = 500000   # id offset of the inline-variable twin of a wrapped probe

LITERAL_FORMS = ["const", "static const", "inline const", "mutable", "class-static"]


def as_item(probe, pid, rng, allow_literal=True):
    """attach id and form.  Literal form = the object itself lives at namespace scope (what the
    property's statement names); wrapped form = evaluation inside a pre-main constructor under try/catch."""
    it = dict(probe)
    it["id"] = pid
    it["form"] = "wrapped"
    # every wrapped probe is evaluated twice before main: from an ordinary (ordered) namespace-scope object and
    # from a C++17 inline variable / static inline data member (partially ordered; clang initialises these
    # earlier than ordinary objects, GCC does not)
    it["twin"] = rng.choice(["inline", "member"])
    if probe.get("force_literal"):
        it["form"] = "literal"
        it["storage"] = rng.choice(["const", "static const", "inline const"])
    elif allow_literal and rng.chance(0.25):
        it["form"] = "literal"
        it["storage"] = rng.choice(LITERAL_FORMS)
    return it


def render_item(it):
    if it["form"] == "neighbour":
        return it["code"] + "\n"
    pid = it["id"]
    if it["form"] == "wrapped":
        return ("static std::string probe_fn_%d() { %s }\n"
                "static const vrt::PreMain probe_%d{%d, &probe_fn_%d};\n" % (pid, it["body"], pid, pid, pid))
    if it["form"] == "neighbour":
        return it["code"] + "\n"
    # literal: a namespace-scope object initialised from the expression, bracketed by markers
    st = it.get("storage", "const")
    fn = "static std::string probe_fn_%d() { %s }\n" % (pid, it["body"])
    typ, init, read = "std::string", " = probe_fn_%d()" % pid, ""
    if "object" in it:
        typ, init, read = it["object"]["type"], it["object"]["init"], it["object"]["read"]
    rd = (lambda obj: "return vrt::c(%s%s);" % (obj, read)) if "object" in it else (lambda obj: "return %s;" % obj)
    if st == "class-static":
        decl = ("struct Holder_%d { static const %s member; };\n"
                "static const vrt::Mark mark_b_%d{'B', %d};\n"
                "const %s Holder_%d::member%s;\n"
                "static const vrt::Mark mark_e_%d{'E', %d};\n"
                "static std::string probe_read_%d() { %s }\n" % (pid, typ, pid, pid, typ, pid, init, pid, pid, pid, rd("Holder_%d::member" % pid)))
    else:
        kw = {"const": "const", "static const": "static const", "inline const": "inline const", "mutable": ""}[st]
        decl = ("static const vrt::Mark mark_b_%d{'B', %d};\n"
                "%s %s literal_%d%s;\n"
                "static const vrt::Mark mark_e_%d{'E', %d};\n"
                "static std::string probe_read_%d() { %s }\n" % (pid, pid, kw, typ, pid, init, pid, pid, pid, rd("literal_%d" % pid)))
    return fn + decl + "static const vrt::Literal probe_%d{%d, &probe_read_%d, &probe_fn_%d};\n" % (pid, pid, pid, pid)


def render_tu(tu):
    """tu: {name, role, includes:[...], items:[...]}"""
    out = ["// generated: %s (%s)" % (tu["name"], tu["role"])]
    for h in tu["includes"]:
        out.append("#include <%s>" % h)
    out.append('#include "c19_rt.hpp"')
    out.append("#include <array>\n#include <vector>\n#include <functional>\n#include <sstream>\n#include <string>")
    out.append("using PhQ::operator<<;")
    if tu["role"] == "bystander":
        # same facilities, used only from an ordinary function that nothing calls before main
        out.append("namespace { int sink_%s; }" % tu["name"])
        for it in tu["items"]:
            out.append("std::string bystander_%s_%d() { %s }" % (tu["name"], it["id"], it["body"]))
    else:
        out.append("namespace {")
        for it in tu["items"]:
            out.append(render_item(it))
        out.append("}  // namespace")
        tag = "%s_%s" % (tu["name"], tu.get("uid", "x"))
        for it in tu["items"]:
            if it.get("form") == "wrapped" and it.get("twin"):
                pid = it["id"]
                if it["twin"] == "inline":
                    out.append("inline const vrt::PreMain probe_twin_%s_%d{%d, &probe_fn_%d};" % (tag, pid, pid + TWIN, pid))
                else:
                    out.append("struct ProbeTwin_%s_%d { static inline const vrt::PreMain probe{%d, &probe_fn_%d}; };" % (tag, pid, pid + TWIN, pid))
    return "\n".join(out) + "\n"


MAIN_CPP = """// generated: main (includes no PhQ header)
#include "c19_rt.hpp"
vrt::Rec vrt::g_recs[vrt::kMaxRecs];
int vrt::g_nrecs;
int main() { return vrt::run_main(); }
"""
