#include "c20_prelude.hpp"
int x;
