"""Generates the C20 harness (C++) from the public API surface of the current tree.

Every generated op is one real library call wrapped so that (a) operands are drawn from a seeded
context, (b) allocation counting/failing is enabled only while the library call is in progress,
(c) the result is canonicalised into a hash (and checked: enumerators returned must be declared
enumerators).  What cannot be generated is skipped and counted."""
import re
from .catalogue import NUMERIC, SHAPES
from .api import Api

from .common import Rng

TSHORT = {"float": "f", "double": "d", "long double": "l"}


def hash_name(s):
    h = 1469598103934665603
    for ch in s.encode():
        h = ((h ^ ch) * 1099511628211) & ((1 << 64) - 1)
    return h
KNOWN_VALUE_TEMPLATES = ["PlanarVector", "Vector", "SymmetricDyad", "Dyad"]


def cxx_escape(s):
    return s  # header literals are already valid C++ escapes


class HarnessGen:
    def __init__(self, cat, api=None, exclude=None, only=None, no_models=False):
        self.no_models = no_models   # clang++ 14 cannot compile ConstitutiveModel/*.hpp (independent of anything we test)
        self.cat = cat
        self.exclude = set(exclude or [])   # instance names known not to compile on this tree (library defects unrelated to C20)
        self.only = set(only) if only is not None else None
        self.excluded_hit = []
        self.api = api or Api()
        self.skipped = []          # (class, decl, reason)
        self.qnames = {q["name"]: q for q in cat.quantities}
        self.model_classes = [m for m in ("ConstitutiveModel::CompressibleNewtonianFluid", "ConstitutiveModel::ElasticIsotropicSolid",
                                          "ConstitutiveModel::IncompressibleNewtonianFluid") if m in self.api.classes and not no_models]
        self.instances = []        # names of every generated op instance (filled by render)
        self.meta = {}             # name -> text mentioning every library type the op touches (calibration uses it)

    @staticmethod
    def decl(i, ct, T, const=True):
        """declaration of argument a<i> of harness type ct; the abstract model base is bound to a seeded concrete model"""
        if ct == "PhQ::ConstitutiveModel":
            return "const auto a%dh = vrt::make<vrt::AnyModel<%s>>(c); const PhQ::ConstitutiveModel& a%d = *a%dh.p;" % (i, T, i, i)
        return "%sauto a%d = vrt::make<%s>(c);" % ("const " if const else "", i, ct)

    @staticmethod
    def tflag(code):
        """flag bit 4: the op takes text (std::string_view / std::string operands) -- these also run with huge operands"""
        if isinstance(code, (list, tuple)):
            code = " ".join(code)
        if re.search(r"exact_view|make<std::string_view>", code):
            return 4
        return 12 if re.search(r"arbitrary_bytes|make<std::string>", code) else 0   # bit 8: only through std::string operands

    def admit(self, name):
        if name in self.exclude:
            self.excluded_hit.append(name)
            return False
        if self.only is not None and name not in self.only:
            return False
        return True

    # ------------------------------------------------------------------ type resolution
    def resolve(self, typ, T, cls=None, other=None):
        """library type string as written inside class `cls` -> harness C++ type for numeric type T, or None"""
        if typ is None:
            return None
        t = typ.strip()
        t = re.sub(r"^(?:typename\s+)?(?:::)?PhQ::", "", t)
        t = re.sub(r"\s+", " ", t)
        if t == "NumericType":
            return T
        if t == "OtherNumericType":
            return other
        if t in ("float", "double", "long double", "bool", "int", "int8_t", "std::int8_t", "std::size_t", "size_t", "int64_t", "int32_t"):
            return t
        if t in ("std::string_view", "std::string"):
            return t
        if t == "std::ostream":
            return "std::ostream"
        if t == "UnitSystem":
            return "PhQ::UnitSystem"
        if t == "Dimensions":
            return "PhQ::Dimensions"
        m = re.match(r"^Dimension::(\w+)$", t)
        if m:
            return "PhQ::Dimension::%s" % m.group(1)
        if t == "UnitType" and cls and cls.get("unit"):
            return "PhQ::Unit::%s" % cls["unit"]
        m = re.match(r"^Unit::(\w+)$", t)
        if m and m.group(1) in self.cat.units:
            return "PhQ::Unit::%s" % m.group(1)
        m = re.match(r"^std::array< ?(\w[\w ]*?) ?, ?(\d+) ?>$", t)
        if m:
            inner = self.resolve(m.group(1), T, cls, other)
            return "std::array<%s, %s>" % (inner, m.group(2)) if inner else None
        m = re.match(r"^std::vector< ?(\w[\w ]*?) ?>$", t)
        if m:
            inner = self.resolve(m.group(1), T, cls, other)
            return "std::vector<%s>" % inner if inner else None
        m = re.match(r"^std::optional< ?(.+) ?>$", t)
        if m:
            inner = self.resolve(m.group(1), T, cls, other)
            return "std::optional<%s>" % inner if inner else None
        m = re.match(r"^((?:ConstitutiveModel::)?\w+) ?< ?([\w ]+?) ?>$", t)
        if m:
            name, arg = m.group(1), m.group(2)
            argt = self.resolve(arg, T, cls, other)
            if argt is None:
                return None
            if name in KNOWN_VALUE_TEMPLATES or name in ("Direction", "PlanarDirection") or name in self.qnames:
                return "PhQ::%s<%s>" % (name, argt)
            if name in ("CompressibleNewtonianFluid", "ElasticIsotropicSolid", "IncompressibleNewtonianFluid"):
                name = "ConstitutiveModel::" + name
            if name in self.model_classes:
                return "PhQ::%s<%s>" % (name, argt)
            return None
        if t == "ConstitutiveModel":
            return "PhQ::ConstitutiveModel" if self.model_classes else None    # abstract: arguments are made through vrt::AnyModel
        if t in self.qnames or t in KNOWN_VALUE_TEMPLATES:   # injected class name without <NumericType>
            return "PhQ::%s<%s>" % (t, T)
        return None

    # ------------------------------------------------------------------ prelude (shared header)
    def prelude(self):
        cat = self.cat
        o = ["// generated prelude: every PhQ header, enumeration tables, operand makers", "#pragma once"]
        hdrs = sorted({u["header"] for u in cat.units.values()} | {q["header"] for q in cat.quantities})
        for extra in ("PhQ/Base.hpp", "PhQ/Dimensions.hpp", "PhQ/Unit.hpp", "PhQ/UnitSystem.hpp", "PhQ/Vector.hpp", "PhQ/PlanarVector.hpp",
                      "PhQ/Dyad.hpp", "PhQ/SymmetricDyad.hpp", "PhQ/ConstitutiveModel.hpp"):
            if extra not in hdrs:
                hdrs.append(extra)
        if self.no_models:
            hdrs = [h for h in hdrs if "ConstitutiveModel" not in h]
        else:
            for m in cat.models:
                hdrs.append("PhQ/ConstitutiveModel/%s.hpp" % m)
        for h in hdrs:
            o.append("#include <%s>" % h)
        o.append('#include "c20_rt.hpp"')
        o.append("#include <functional>\n#include <sstream>\n#include <memory>")
        o.append("using PhQ::operator<<;")
        o.append("namespace vrt {")
        # enumerations
        def enum_info(cxx, enumerators, literals):
            o.append("template <> struct EnumInfo<%s> {" % cxx)
            o.append("  static constexpr bool known = true;")
            o.append("  static constexpr int count = %d;" % len(enumerators))
            o.append("  static constexpr %s all[%d] = {%s};" % (cxx, len(enumerators), ", ".join("%s::%s" % (cxx, e) for e in enumerators)))
            o.append("  static constexpr int nliterals = %d;" % len(literals))
            o.append("  static constexpr const char* literals[%d] = {%s};" % (max(1, len(literals)), ", ".join('"%s"' % l for l in literals) or '""'))
            o.append("};")
        for U, d in cat.units.items():
            enum_info("PhQ::Unit::%s" % U, d["enumerators"], d["literals"])
        enum_info("PhQ::UnitSystem", cat.unit_systems, cat.us_literals)
        if cat.model_types and not self.no_models:
            enum_info("PhQ::ConstitutiveModel::Type", cat.model_types, cat.model_literals)
        # value templates
        o.append("""
template <class T> struct Maker<PhQ::PlanarVector<T>> { static PhQ::PlanarVector<T> make(Ctx& c) { return PhQ::PlanarVector<T>{vrt::make<std::array<T, 2>>(c)}; } };
template <class T> struct Maker<PhQ::Vector<T>> { static PhQ::Vector<T> make(Ctx& c) { if (c.below(16) == 0) return PhQ::Vector<T>::Zero(); return PhQ::Vector<T>{vrt::make<std::array<T, 3>>(c)}; } };
// tensors: besides arbitrary components, exactly singular ones that are not uniform (zero row, two equal rows,
// rank one, a zero on the diagonal of a diagonal tensor) and the identity
template <class T> struct Maker<PhQ::SymmetricDyad<T>> { static PhQ::SymmetricDyad<T> make(Ctx& c) {
  const std::uint64_t k = c.below(16);
  if (k == 0) return PhQ::SymmetricDyad<T>::Zero();
  const T a = modest_value<T>(c), b = modest_value<T>(c), d = modest_value<T>(c);
  if (k == 1) return PhQ::SymmetricDyad<T>{a * a, a * b, a * d, b * b, b * d, d * d};                 // rank one
  if (k == 2) return PhQ::SymmetricDyad<T>{a, 0, 0, b, 0, 0};                                        // diagonal, one zero
  if (k == 3) return PhQ::SymmetricDyad<T>{1, 0, 0, 1, 0, 1};                                        // identity
  if (k == 4) return PhQ::SymmetricDyad<T>{a, a, b, a, b, d};                                        // rows 0 and 1 equal
  return PhQ::SymmetricDyad<T>{vrt::make<std::array<T, 6>>(c)}; } };
template <class T> struct Maker<PhQ::Dyad<T>> { static PhQ::Dyad<T> make(Ctx& c) {
  const std::uint64_t k = c.below(16);
  if (k == 0) return PhQ::Dyad<T>::Zero();
  const T a = modest_value<T>(c), b = modest_value<T>(c), d = modest_value<T>(c);
  if (k == 1) return PhQ::Dyad<T>{a, b, d, a, b, d, d, a, b};                                        // two equal rows
  if (k == 2) return PhQ::Dyad<T>{a, b, d, 0, 0, 0, b, d, a};                                        // zero row
  if (k == 3) return PhQ::Dyad<T>{a * a, a * b, a * d, b * a, b * b, b * d, d * a, d * b, d * d};      // rank one
  if (k == 4) return PhQ::Dyad<T>{1, 0, 0, 0, 1, 0, 0, 0, 1};                                        // identity
  if (k == 5) return PhQ::Dyad<T>{a, 0, 0, 0, 0, 0, 0, 0, d};                                        // diagonal, one zero
  return PhQ::Dyad<T>{vrt::make<std::array<T, 9>>(c)}; } };
template <class T> struct Maker<PhQ::Direction<T>> { static PhQ::Direction<T> make(Ctx& c) {
  PhQ::Direction<T> d{vrt::make<PhQ::Vector<T>>(c)};
  if (!all_finite(d)) d = PhQ::Direction<T>{modest_value<T>(c), modest_value<T>(c), modest_value<T>(c)};
  return d; } };
template <class T> struct Maker<PhQ::PlanarDirection<T>> { static PhQ::PlanarDirection<T> make(Ctx& c) {
  PhQ::PlanarDirection<T> d{vrt::make<PhQ::PlanarVector<T>>(c)};
  if (!all_finite(d)) d = PhQ::PlanarDirection<T>{modest_value<T>(c), modest_value<T>(c)};
  return d; } };
template <> struct Maker<std::string_view> { static std::string_view make(Ctx& c) {
  return exact_view(c, arbitrary_bytes(c)); } };
template <> struct Maker<PhQ::Dimensions> { static PhQ::Dimensions make(Ctx& c) {
  auto e = [&c]() { std::uint64_t r = c.next(); return static_cast<int8_t>((r % 5 == 0) ? static_cast<int>(r >> 8) % 256 - 128 : static_cast<int>(r >> 8) % 7 - 3); };
  return PhQ::Dimensions{PhQ::Dimension::Time{e()}, PhQ::Dimension::Length{e()}, PhQ::Dimension::Mass{e()}, PhQ::Dimension::ElectricCurrent{e()},
                         PhQ::Dimension::Temperature{e()}, PhQ::Dimension::SubstanceAmount{e()}, PhQ::Dimension::LuminousIntensity{e()}}; } };
""")
        for d in ("Time", "Length", "Mass", "ElectricCurrent", "Temperature", "SubstanceAmount", "LuminousIntensity"):
            o.append("template <> struct Maker<PhQ::Dimension::%s> { static PhQ::Dimension::%s make(Ctx& c) { return PhQ::Dimension::%s{static_cast<int8_t>(static_cast<int>(c.below(256)) - 128)}; } };" % (d, d, d))
        # quantities
        for q in cat.quantities:
            n = q["name"]
            if q["unit"]:
                shape = q["shape"]
                vt = "T" if shape == "Scalar" else "PhQ::%s<T>" % shape
                if shape == "Scalar":
                    modest = "modest_value<T>(c)"
                    zero = "static_cast<T>(0)"
                else:
                    modest = "PhQ::%s<T>{%s}" % (shape, ", ".join("modest_value<T>(c)" for _ in range(SHAPES[shape])))
                    zero = "PhQ::%s<T>{%s}" % (shape, ", ".join("static_cast<T>(0)" for _ in range(SHAPES[shape])))
                o.append("template <class T> struct Maker<PhQ::%s<T>> { static PhQ::%s<T> make(Ctx& c) {\n"
                         "  const PhQ::Unit::%s u = vrt::make<PhQ::Unit::%s>(c);\n"
                         "  PhQ::%s<T> q{vrt::make<%s>(c), u};\n"
                         "  if (!all_finite(q)) q = PhQ::%s<T>{%s, u};\n"
                         "  if (!all_finite(q)) q = PhQ::%s<T>{%s, u};\n"
                         "  return q; } };" % (n, n, q["unit"], q["unit"], n, vt, n, modest, n, zero))
            else:
                shape = q["shape"]
                if n in ("Direction", "PlanarDirection"):
                    continue
                vt = "T" if shape == "Scalar" else "PhQ::%s<T>" % shape
                o.append("template <class T> struct Maker<PhQ::%s<T>> { static PhQ::%s<T> make(Ctx& c) { return PhQ::%s<T>{vrt::make<%s>(c)}; } };" % (n, n, n, vt))
        # models
        if "ConstitutiveModel::ElasticIsotropicSolid" in self.model_classes:
            o.append("""
template <class T> struct Maker<PhQ::ConstitutiveModel::ElasticIsotropicSolid<T>> { static PhQ::ConstitutiveModel::ElasticIsotropicSolid<T> make(Ctx& c) {
  if (c.below(4) == 0) return PhQ::ConstitutiveModel::ElasticIsotropicSolid<T>{vrt::make<PhQ::YoungModulus<T>>(c), vrt::make<PhQ::PoissonRatio<T>>(c)};
  const T e = static_cast<T>(1 + c.below(100000)) ;
  const T nu = static_cast<T>(static_cast<int>(c.below(140)) - 95) / static_cast<T>(100);  // (-0.95, 0.45)
  return PhQ::ConstitutiveModel::ElasticIsotropicSolid<T>{PhQ::YoungModulus<T>{e, vrt::make<PhQ::Unit::Pressure>(c)}, PhQ::PoissonRatio<T>{nu}}; } };""")
        if "ConstitutiveModel::IncompressibleNewtonianFluid" in self.model_classes:
            o.append("""
template <class T> struct Maker<PhQ::ConstitutiveModel::IncompressibleNewtonianFluid<T>> { static PhQ::ConstitutiveModel::IncompressibleNewtonianFluid<T> make(Ctx& c) {
  return PhQ::ConstitutiveModel::IncompressibleNewtonianFluid<T>{vrt::make<PhQ::DynamicViscosity<T>>(c)}; } };""")
        if "ConstitutiveModel::CompressibleNewtonianFluid" in self.model_classes:
            o.append("""
template <class T> struct Maker<PhQ::ConstitutiveModel::CompressibleNewtonianFluid<T>> { static PhQ::ConstitutiveModel::CompressibleNewtonianFluid<T> make(Ctx& c) {
  if (c.below(2)) return PhQ::ConstitutiveModel::CompressibleNewtonianFluid<T>{vrt::make<PhQ::DynamicViscosity<T>>(c)};
  return PhQ::ConstitutiveModel::CompressibleNewtonianFluid<T>{vrt::make<PhQ::DynamicViscosity<T>>(c), vrt::make<PhQ::BulkDynamicViscosity<T>>(c)}; } };""")
        if self.model_classes:
            cases_ = "\n".join("    case %d: return AnyModel<T>{std::make_shared<const PhQ::%s<T>>(vrt::make<PhQ::%s<T>>(c))};" % (i, m, m) for i, m in enumerate(self.model_classes))
            o.append("""
// an argument of the abstract base type: a seeded concrete model behind a pointer to the base
template <class T> struct AnyModel { std::shared_ptr<const PhQ::ConstitutiveModel> p; };
template <class T> struct Maker<AnyModel<T>> { static AnyModel<T> make(Ctx& c) {
  switch (c.below(%d)) {
%s
  }
  return AnyModel<T>{std::make_shared<const PhQ::%s<T>>(vrt::make<PhQ::%s<T>>(c))}; } };""" % (len(self.model_classes), cases_, self.model_classes[0], self.model_classes[0]))
        o.append("struct Registrar { Registrar(const OpEntry* e, int n) { register_ops(e, n); } };")
        o.append("struct RegistrarInline { RegistrarInline(const OpEntry* e, int n) { register_ops_inline(e, n); } };")
        o.append("}  // namespace vrt")
        return "\n".join(o) + "\n"

    # ------------------------------------------------------------------ class ops
    def class_members(self, cname):
        """own public members + public members of the Dimensional*/Dimensionless* base"""
        c = self.api.classes[cname]
        info = {"name": cname, "unit": None, "header": c["header"]}
        members = list(c["members"])
        base = c["base"]
        m = re.match(r"^(Dimension(?:al|less)\w+) ?< ?(?:Unit::(\w+) ?, ?)?NumericType ?>$", base)
        if m and m.group(1) in self.api.classes:
            info["unit"] = m.group(2)
            members += self.api.classes[m.group(1)]["members"]
        return info, members

    def op_code(self, info, mem, T, selfT, variant):
        """returns (name_suffix, code, flags) or None; variant = dict(other=..., enum=...)"""
        flags = 0
        args, pre, post = [], [], []
        for i, p in enumerate(mem["params"]):
            ct = self.resolve(p["type"], T, info, variant.get("other"))
            if ct is None:
                return None
            if ct == "std::ostream":
                if not p["mutable_ref"]:
                    return None
                args.append("(*c.os)")
                flags |= 1
                post.append("vrt::consume(c, static_cast<int>(c.os->rdstate()));")
                continue
            if ct == "PhQ::ConstitutiveModel" and p["mutable_ref"]:
                return None
            pre.append(self.decl(i, ct, T, const=False))
            args.append("a%d" % i)
            if p["mutable_ref"]:
                post.append("vrt::consume(c, a%d);" % i)
        call_args = ", ".join(args)
        tmpl = mem.get("template")
        targ = ""
        if tmpl:
            if re.match(r"^typename OtherNumericType$", tmpl):
                if not variant.get("other"):
                    return None
            elif variant.get("enum"):
                targ = "template %s<%s>" % ("%s", variant["enum"])
            else:
                return None
        if mem["kind"] == "ctor":
            if not mem["params"]:
                return None  # default construction leaves values indeterminate by design; reading them would be the caller's error
            code = pre + ["/*ctor*/ auto r = [&] { vrt::Count k; return %s(%s); }();" % (selfT, call_args), "vrt::consume(c, r);"] + post
            return code, flags
        name = mem["name"]
        is_void = mem["ret"].replace("constexpr", "").replace("inline", "").strip() == "void"
        selfdecl = []
        if mem["static"]:
            target = "%s::%s" % (selfT, ("template %s<%s>" % (name, variant["enum"])) if targ else name)
            expr = "%s(%s)" % (target, call_args)
        else:
            selfdecl = ["%sauto self = vrt::make<%s>(c);" % ("const " if mem["const"] else "", selfT)]
            if name.startswith("operator"):
                op = name[len("operator"):]
                if op in ("()",):
                    expr = "self(%s)" % call_args
                elif op == "[]":
                    return None
                elif len(args) == 1:
                    expr = "self %s %s" % (op, args[0])
                elif len(args) == 0:
                    expr = "%sself" % op
                else:
                    return None
            else:
                target = "self.%s" % (("template %s<%s>" % (name, variant["enum"])) if targ else name)
                expr = "%s(%s)" % (target, call_args)
        if is_void or (name.startswith("operator") and name.endswith("=") and name not in ("operator==", "operator!=", "operator<=", "operator>=")):
            code = selfdecl + pre + ["{ vrt::Count k; %s; }" % expr]
            if not mem["static"]:
                code.append("vrt::consume(c, self);")
            code += post
        else:
            if flags & 1:   # takes the caller's stream: may well return it (by reference)
                code = selfdecl + pre + ["auto&& r = [&]() -> decltype(auto) { vrt::Count k; return (%s); }();" % expr, "vrt::consume_or_stream(c, r);"] + post
            else:
                code = selfdecl + pre + ["auto r = [&]() -> decltype(auto) { vrt::Count k; return (%s); }();" % expr, "vrt::consume(c, r);"] + post
        return code, flags

    def sig(self, mem):
        ps = ",".join((p["type"] or "?").replace(" ", "") for p in mem["params"])
        if mem["kind"] == "ctor":
            return "ctor(%s)" % ps
        return "%s(%s)%s" % (mem["name"], ps, "const" if mem.get("const") else "")

    def variants(self, info, mem, T):
        tmpl = mem.get("template")
        if not tmpl:
            return [({}, "")]
        if re.match(r"^typename OtherNumericType$", tmpl):
            return [({"other": o}, "|Other=%s" % TSHORT[o]) for o in NUMERIC if o != T] + [({"other": T}, "|Other=%s" % TSHORT[T])]
        m = re.match(r"^(?:Unit::(\w+)|UnitType) \w+$", tmpl)
        if m:
            U = m.group(1) or info.get("unit")
            if U in self.cat.units:
                es = self.cat.units[U]["enumerators"]
                picks = list(dict.fromkeys([es[0], es[-1], es[len(es) // 2]]))
                return [({"enum": "PhQ::Unit::%s::%s" % (U, e)}, "|Unit=%s" % e) for e in picks]
        return []

    def render_class(self, cname, Ts):
        """returns C++ text defining ops for class cname for numeric types Ts, with registration"""
        info, members = self.class_members(cname)
        short = cname.replace("::", "_")
        out = []
        for T in Ts:
            selfT = "PhQ::%s<%s>" % (cname, T)
            cases, entries = [], []
            seen = set()
            for mem in members:
                for variant, vsuffix in self.variants(info, mem, T):
                    try:
                        r = self.op_code(info, mem, T, selfT, variant)
                    except Exception as e:
                        r = None
                    name = "%s<%s>|%s%s" % (cname, TSHORT[T], self.sig(mem), vsuffix)
                    if r is None:
                        self.skipped.append((cname, mem.get("decl", "")[:100], "unsupported parameter/template"))
                        continue
                    if name in seen or not self.admit(name):
                        continue
                    seen.add(name)
                    code, flags = r
                    k = len(cases)
                    cases.append("    case %d: { %s break; }" % (k, " ".join(code)))
                    entries.append('  {"%s", &ops_%s_%s, %d, %d},' % (name, short, TSHORT[T], k, flags | self.tflag(code)))
                    self.instances.append(name)
                    self.meta[name] = "%s %s %s" % (cname, mem.get("ret", ""), " ".join(p["type"] or "" for p in mem["params"]))
            # std::hash
            if cname in self.api.hashes and self.admit("%s<%s>|std::hash" % (cname, TSHORT[T])):
                k = len(cases)
                cases.append("    case %d: { const auto self = vrt::make<%s>(c); auto r = [&] { vrt::Count k; return std::hash<%s>()(self); }(); vrt::consume(c, r); break; }" % (k, selfT, selfT))
                name = "%s<%s>|std::hash" % (cname, TSHORT[T])
                entries.append('  {"%s", &ops_%s_%s, %d, 0},' % (name, short, TSHORT[T], k))
                self.instances.append(name)
            # free operator templates whose first class-typed parameter is this class
            for f in self.api.free:
                owner = None
                for p in f["params"]:
                    m = re.match(r"^(?:PhQ::)?((?:ConstitutiveModel::)?\w+) ?< ?NumericType ?>$", (p["type"] or ""))
                    if m and (m.group(1) in self.qnames or m.group(1) in KNOWN_VALUE_TEMPLATES or m.group(1) in ("Direction", "PlanarDirection")
                              or "ConstitutiveModel::" + m.group(1).split("::")[-1] in self.model_classes):
                        owner = m.group(1).split("::")[-1]
                        break
                if owner != cname.split("::")[-1]:
                    continue
                cts = [self.resolve(p["type"], T, info) for p in f["params"]]
                if any(ct is None for ct in cts) or len(cts) != 2:
                    self.skipped.append((cname, f["name"], "free operator: unsupported parameter"))
                    continue
                op = f["name"][len("operator"):]
                k = len(cases)
                name = "%s<%s>|free:%s(%s)" % (cname, TSHORT[T], f["name"], ",".join((p["type"] or "").replace(" ", "") for p in f["params"]))
                if name in seen or not self.admit(name):
                    continue
                seen.add(name)
                if cts[0] == "std::ostream":
                    code = "%s { vrt::Count k; (*c.os) %s a1; } vrt::consume(c, static_cast<int>(c.os->rdstate()));" % (self.decl(1, cts[1], T), op)
                    flags = 1
                else:
                    code = "%s %s auto r = [&]() -> decltype(auto) { vrt::Count k; return (a0 %s a1); }(); vrt::consume(c, r);" % (self.decl(0, cts[0], T), self.decl(1, cts[1], T), op)
                    flags = 0
                cases.append("    case %d: { %s break; }" % (k, code))
                entries.append('  {"%s", &ops_%s_%s, %d, %d},' % (name, short, TSHORT[T], k, flags | self.tflag(code)))
                self.instances.append(name)
            if not cases:
                continue
            out.append("static void ops_%s_%s(vrt::Ctx& c, int which) {\n  switch (which) {\n%s\n    default: break;\n  }\n}" % (short, TSHORT[T], "\n".join(cases)))
            out.append("static const vrt::OpEntry table_%s_%s[] = {\n%s\n};" % (short, TSHORT[T], "\n".join(entries)))
            out.append("static const vrt::Registrar reg_%s_%s{table_%s_%s, %d};" % (short, TSHORT[T], short, TSHORT[T], len(entries)))
        return "\n".join(out) + "\n"

    # ------------------------------------------------------------------ hand-written core ops
    def render_units(self, units, Ts):
        """Convert / ConvertInPlace over every container, per unit type and numeric type; enumeration ops per unit type"""
        out = []
        for U in units:
            E = "PhQ::Unit::%s" % U
            for T in Ts:
                cases, entries = [], []
                def add(label, code, flags=0):
                    k = len(cases)
                    name = "Unit::%s<%s>|%s" % (U, TSHORT[T], label)
                    if not self.admit(name):
                        return
                    cases.append("    case %d: { %s break; }" % (k, code))
                    entries.append('  {"%s", &ops_unit_%s_%s, %d, %d},' % (name, U, TSHORT[T], k, flags | self.tflag(code)))
                    self.instances.append(name)
                conts = [("scalar", T), ("array1", "std::array<%s, 1>" % T), ("array3", "std::array<%s, 3>" % T), ("array9", "std::array<%s, 9>" % T),
                         ("vector", "std::vector<%s>" % T), ("PlanarVector", "PhQ::PlanarVector<%s>" % T), ("Vector", "PhQ::Vector<%s>" % T),
                         ("SymmetricDyad", "PhQ::SymmetricDyad<%s>" % T), ("Dyad", "PhQ::Dyad<%s>" % T)]
                for label, ct in conts:
                    add("Convert(%s)" % label,
                        "const auto from = vrt::make<%s>(c); const auto to = vrt::make<%s>(c); const auto x = vrt::make<%s>(c); "
                        "auto r = [&] { vrt::Count k; return PhQ::Convert(x, from, to); }(); vrt::consume(c, r); vrt::consume(c, x);" % (E, E, ct))
                    add("ConvertInPlace(%s)" % label,
                        "const auto from = vrt::make<%s>(c); const auto to = vrt::make<%s>(c); auto x = vrt::make<%s>(c); "
                        "{ vrt::Count k; PhQ::ConvertInPlace(x, from, to); } vrt::consume(c, x);" % (E, E, ct))
                if not cases:
                    continue
                # compile-time conversions between a few enumerator pairs (free function templates with explicit arguments)
                es_ = self.cat.units[U]["enumerators"]
                pairs_ = list(dict.fromkeys([(es_[0], es_[-1]), (es_[-1], es_[len(es_) // 2]), (es_[len(es_) // 2], es_[0])]))
                for (ea, eb) in pairs_:
                    for label, ct in (("scalar", T), ("Vector", "PhQ::Vector<%s>" % T), ("Dyad", "PhQ::Dyad<%s>" % T)):
                        add("ConvertStatically(%s)|%s->%s" % (label, ea, eb),
                            "const auto x = vrt::make<%s>(c); auto r = [&] { vrt::Count k; return PhQ::ConvertStatically<%s, %s::%s, %s::%s>(x); }(); vrt::consume(c, r);" % (ct, E, E, ea, E, eb))
                out.append("static void ops_unit_%s_%s(vrt::Ctx& c, int which) {\n  switch (which) {\n%s\n    default: break;\n  }\n}" % (U, TSHORT[T], "\n".join(cases)))
                out.append("static const vrt::OpEntry table_unit_%s_%s[] = {\n%s\n};" % (U, TSHORT[T], "\n".join(entries)))
                out.append("static const vrt::Registrar reg_unit_%s_%s{table_unit_%s_%s, %d};" % (U, TSHORT[T], U, TSHORT[T], len(entries)))
        return "\n".join(out) + "\n"

    def render_enums(self):
        out = []
        enums = [("Unit::%s" % U, "PhQ::Unit::%s" % U, True) for U in self.cat.units] + [("UnitSystem", "PhQ::UnitSystem", False)]
        if self.cat.model_types and not self.no_models:
            enums.append(("ConstitutiveModel::Type", "PhQ::ConstitutiveModel::Type", False))
        for label, E, is_unit in enums:
            ident = re.sub(r"\W", "_", label)
            cases, entries = [], []
            def add(op, code, flags=0):
                k = len(cases)
                name = "%s|%s" % (label, op)
                if not self.admit(name):
                    return
                cases.append("    case %d: { %s break; }" % (k, code))
                entries.append('  {"%s", &ops_enum_%s, %d, %d},' % (name, ident, k, flags | self.tflag(code)))
                self.instances.append(name)
            add("Abbreviation", "const auto e = vrt::make<%s>(c); auto r = [&] { vrt::Count k; return PhQ::Abbreviation(e); }(); vrt::consume(c, r);" % E)
            if label != "ConstitutiveModel::Type":
                add("operator<<", "const auto e = vrt::make<%s>(c); { vrt::Count k; (*c.os) << e; } vrt::consume(c, static_cast<int>(c.os->rdstate()));" % E, 1)
            # spelling as written in the header (selector p0 = literal index for exhaustive sweeps)
            add("ParseEnumeration(literal)",
                "const std::string s = vrt::EnumInfo<%s>::literals[c.select(vrt::EnumInfo<%s>::nliterals)]; "
                "const std::string_view v = vrt::exact_view(c, s); auto r = [&] { vrt::Count k; return PhQ::ParseEnumeration<%s>(v); }(); vrt::consume(c, r);" % (E, E, E), 2)
            add("ParseEnumeration(mutated)",
                "const std::string s = vrt::mutate(c, vrt::EnumInfo<%s>::literals[c.select(vrt::EnumInfo<%s>::nliterals)]); "
                "const std::string_view v = vrt::exact_view(c, s); auto r = [&] { vrt::Count k; return PhQ::ParseEnumeration<%s>(v); }(); vrt::consume(c, r);" % (E, E, E), 2)
            add("ParseEnumeration(short)",
                "const std::string s = vrt::short_string(c.select(65793)); const std::string_view v = vrt::exact_view(c, s); auto r = [&] { vrt::Count k; return PhQ::ParseEnumeration<%s>(v); }(); vrt::consume(c, r);" % E, 2)
            add("ParseEnumeration(bytes)",
                "const std::string s = vrt::arbitrary_bytes(c); const std::string_view v = vrt::exact_view(c, s); auto r = [&] { vrt::Count k; return PhQ::ParseEnumeration<%s>(v); }(); vrt::consume(c, r);" % E, 2)
            if is_unit:
                add("ConsistentUnit", "const auto s = vrt::make<PhQ::UnitSystem>(c); auto r = [&] { vrt::Count k; return PhQ::ConsistentUnit<%s>(s); }(); vrt::consume(c, r);" % E)
                add("RelatedUnitSystem", "const auto e = vrt::make<%s>(c); auto r = [&] { vrt::Count k; return PhQ::RelatedUnitSystem(e); }(); vrt::consume(c, r);" % E)
                add("Standard+RelatedDimensions", "auto r = [&] { vrt::Count k; return PhQ::RelatedDimensions<%s>.Print(); }(); vrt::consume(c, r); vrt::consume(c, PhQ::Standard<%s>);" % (E, E))
            if not cases:
                continue
            out.append("static void ops_enum_%s(vrt::Ctx& c, int which) {\n  switch (which) {\n%s\n    default: break;\n  }\n}" % (ident, "\n".join(cases)))
            out.append("static const vrt::OpEntry table_enum_%s[] = {\n%s\n};" % (ident, "\n".join(entries)))
            out.append("static const vrt::Registrar reg_enum_%s{table_enum_%s, %d};" % (ident, ident, len(entries)))
        return "\n".join(out) + "\n"

    def render_base(self):
        """ParseNumber<T>, Print<T>, string helpers, Dimension::*, Dimensions"""
        cases, entries = [], []
        def add(name, code, flags=0):
            k = len(cases)
            if not self.admit(name):
                return
            cases.append("    case %d: { %s break; }" % (k, code))
            entries.append('  {"%s", &ops_base, %d, %d},' % (name, k, flags | self.tflag(code)))
            self.instances.append(name)
        for T in NUMERIC:
            t = TSHORT[T]
            add("Base|ParseNumber<%s>(number-like)" % t, "const std::string s = vrt::number_like(c); auto r = [&] { vrt::Count k; return PhQ::ParseNumber<%s>(s); }(); vrt::consume(c, r);" % T, 2)
            add("Base|ParseNumber<%s>(short)" % t, "const std::string s = vrt::short_string(c.select(65793)); auto r = [&] { vrt::Count k; return PhQ::ParseNumber<%s>(s); }(); vrt::consume(c, r);" % T, 2)
            add("Base|ParseNumber<%s>(bytes)" % t, "const std::string s = vrt::arbitrary_bytes(c); auto r = [&] { vrt::Count k; return PhQ::ParseNumber<%s>(s); }(); vrt::consume(c, r);" % T, 2)
            add("Base|ParseNumber<%s>(printed)" % t, "const std::string s = PhQ::Print(vrt::make<%s>(c)); auto r = [&] { vrt::Count k; return PhQ::ParseNumber<%s>(s); }(); vrt::consume(c, r);" % (T, T), 2)
            add("Base|ParseNumber<%s>(grammar)" % t, "const std::string s = vrt::kNumberGrammar[c.select(vrt::kNumberGrammarSize)]; auto r = [&] { vrt::Count k; return PhQ::ParseNumber<%s>(s); }(); vrt::consume(c, r);" % T, 2)
            add("Base|Print<%s>" % t, "const auto x = vrt::make<%s>(c); auto r = [&] { vrt::Count k; return PhQ::Print(x); }(); vrt::consume(c, r);" % T)
            add("Base|Pi<%s>" % t, "vrt::consume(c, PhQ::Pi<%s>);" % T)
        for fn in ("Lowercase", "Uppercase", "SnakeCase"):
            add("Base|%s(bytes)" % fn, "const std::string s = vrt::arbitrary_bytes(c); const std::string_view v = vrt::exact_view(c, s); auto r = [&] { vrt::Count k; return PhQ::%s(v); }(); vrt::consume(c, r);" % fn)
        dims = ["Time", "Length", "Mass", "ElectricCurrent", "Temperature", "SubstanceAmount", "LuminousIntensity"]
        for d in dims:
            D = "PhQ::Dimension::%s" % d
            add("Dimension::%s|Print" % d, "const auto x = vrt::make<%s>(c); auto r = [&] { vrt::Count k; return x.Print(); }(); vrt::consume(c, r); vrt::consume(c, x.Value()); vrt::consume(c, %s::Abbreviation()); vrt::consume(c, %s::Label());" % (D, D, D))
            add("Dimension::%s|compare+hash" % d, "const auto x = vrt::make<%s>(c); const auto y = vrt::make<%s>(c); vrt::consume(c, x == y); vrt::consume(c, x != y); vrt::consume(c, x < y); vrt::consume(c, x > y); vrt::consume(c, x <= y); vrt::consume(c, x >= y); vrt::consume(c, std::hash<%s>()(x));" % (D, D, D))
            add("Dimension::%s|operator<<" % d, "const auto x = vrt::make<%s>(c); { vrt::Count k; (*c.os) << x; } vrt::consume(c, static_cast<int>(c.os->rdstate()));" % D, 1)
        for fn in ("Print", "JSON", "XML", "YAML"):
            add("Dimensions|%s" % fn, "const auto x = vrt::make<PhQ::Dimensions>(c); auto r = [&] { vrt::Count k; return x.%s(); }(); vrt::consume(c, r);" % fn)
        add("Dimensions|compare+hash", "const auto x = vrt::make<PhQ::Dimensions>(c); const auto y = c.below(4) ? vrt::make<PhQ::Dimensions>(c) : x; vrt::consume(c, x == y); vrt::consume(c, x != y); vrt::consume(c, x < y); vrt::consume(c, x > y); vrt::consume(c, x <= y); vrt::consume(c, x >= y); vrt::consume(c, std::hash<PhQ::Dimensions>()(x));")
        add("Dimensions|operator<<", "const auto x = vrt::make<PhQ::Dimensions>(c); { vrt::Count k; (*c.os) << x; } vrt::consume(c, static_cast<int>(c.os->rdstate()));", 1)
        add("Dimensions|accessors", "const auto x = vrt::make<PhQ::Dimensions>(c); vrt::consume(c, x.Time().Value()); vrt::consume(c, x.Length().Value()); vrt::consume(c, x.Mass().Value()); vrt::consume(c, x.ElectricCurrent().Value()); vrt::consume(c, x.Temperature().Value()); vrt::consume(c, x.SubstanceAmount().Value()); vrt::consume(c, x.LuminousIntensity().Value()); vrt::consume(c, PhQ::Dimensionless.Print());")
        if not cases:
            return ""
        out = ["static void ops_base(vrt::Ctx& c, int which) {\n  switch (which) {\n%s\n    default: break;\n  }\n}" % "\n".join(cases),
               "static const vrt::OpEntry table_base[] = {\n%s\n};" % "\n".join(entries),
               "static const vrt::Registrar reg_base{table_base, %d};" % len(entries)]
        return "\n".join(out) + "\n"

    def free_function_calls(self, T):
        """(instance name, call template with %s placeholders for the arguments, [C++ argument types], constexpr?) for every
        free non-operator function template; a parameter of base type DimensionlessScalar<NumericType> is expanded over
        every dimensionless scalar quantity, OtherNumericType over double and int"""
        out = []
        dimless = [q["name"] for q in self.cat.quantities if q["unit"] is None and q["shape"] == "Scalar"]
        for f in self.api.functions:
            if f["ns"] == "PhQ" and f["name"] == "Print":
                continue   # covered by the hand-written Base ops
            variants = [[]]
            ok = True
            for p in f["params"]:
                t = (p["type"] or "").replace("PhQ::", "").replace(" ", "")
                if p["mutable_ref"]:
                    ok = False; break
                if t == "DimensionlessScalar<NumericType>":
                    choices = ["PhQ::%s<%s>" % (q, T) for q in dimless]
                elif t == "OtherNumericType":
                    choices = ["double", "int"]
                else:
                    r = self.resolve(p["type"], T, None)
                    if r is None:
                        ok = False; break
                    choices = [r]
                variants = [v + [c] for v in variants for c in choices]
            if not ok:
                self.skipped.append((f["ns"], f["name"], "free function: unsupported parameter"))
                continue
            for v in variants:
                short = ",".join(re.sub(r"^PhQ::", "", x).replace("<%s>" % T, "") for x in v)
                name = "Free|%s::%s<%s>(%s)" % (f["ns"], f["name"], TSHORT[T], short.replace(" ", ""))
                out.append((name, "%s::%s(%s)" % (f["ns"], f["name"], ", ".join(["%s"] * len(v))), v, f["constexpr"]))
        return out

    def render_free_functions(self, Ts):
        out = []
        for T in Ts:
            cases, entries = [], []
            for name, call, types, _ in self.free_function_calls(T):
                if not self.admit(name):
                    continue
                k = len(cases)
                pre = " ".join(self.decl(i, t, T) for i, t in enumerate(types))
                cases.append("    case %d: { %s auto r = [&] { vrt::Count k; return %s; }(); vrt::consume(c, r); break; }" % (
                    k, pre, call % tuple("a%d" % i for i in range(len(types)))))
                entries.append('  {"%s", &ops_freefn_%s, %d, %d},' % (name, TSHORT[T], k, self.tflag(pre)))
                self.instances.append(name)
            if cases:
                out.append("static void ops_freefn_%s(vrt::Ctx& c, int which) {\n  switch (which) {\n%s\n    default: break;\n  }\n}" % (TSHORT[T], "\n".join(cases)))
                out.append("static const vrt::OpEntry table_freefn_%s[] = {\n%s\n};" % (TSHORT[T], "\n".join(entries)))
                out.append("static const vrt::Registrar reg_freefn_%s{table_freefn_%s, %d};" % (TSHORT[T], TSHORT[T], len(entries)))
        return "\n".join(out) + "\n" if out else ""

    def render_enum_functions(self, suffix=""):
        """free function templates over one enumeration type (stream manipulators, per-unit-type helpers): called with the
        template argument written out, for every unit type (template parameter Unit/UnitType) or every enumeration.  A result
        that is not a value the harness can canonicalise but can be inserted into a stream (a manipulator) is inserted into
        the op's stream -- flag bit 16 -- so that histories apply it to streams that later ops print to."""
        if not self.api.enum_functions:
            return ""
        units = [("Unit::%s" % U, "PhQ::Unit::%s" % U) for U in sorted(self.cat.units)]
        every = units + [("UnitSystem", "PhQ::UnitSystem")]
        cases, entries = [], []
        ident = re.sub(r"\W", "_", suffix)
        for f in self.api.enum_functions:
            for label, E in (every if f["tparam"] == "Enumeration" else units):
                args, pre, flags, ok = [], [], 0, True
                for i, p in enumerate(f["params"]):
                    t = (p["type"] or "").replace("PhQ::", "").replace(" ", "")
                    if t == f["tparam"]:
                        pre.append("const auto a%d = vrt::make<%s>(c);" % (i, E)); args.append("a%d" % i)
                    elif t in ("std::ios_base", "std::ostream", "std::ios") and p["mutable_ref"]:
                        args.append("(*c.os)"); flags |= 1
                    elif t == "UnitSystem":
                        pre.append("const auto a%d = vrt::make<PhQ::UnitSystem>(c);" % i); args.append("a%d" % i)
                    elif t in ("std::string_view", "std::string") and not p["mutable_ref"]:
                        pre.append("const auto a%d = vrt::make<%s>(c);" % (i, t)); args.append("a%d" % i)
                    elif t in ("bool", "int", "std::size_t", "double") and not p["mutable_ref"]:
                        pre.append("const auto a%d = vrt::make<%s>(c);" % (i, t)); args.append("a%d" % i)
                    else:
                        ok = False
                        break
                if not ok:
                    self.skipped.append(("PhQ", f["name"], "enumeration function template: unsupported parameter"))
                    break
                name = "EnumFn|%s<%s>%s" % (f["name"], label, suffix)
                if not self.admit(name):
                    continue
                call = "PhQ::%s<%s>(%s)" % (f["name"], E, ", ".join(args))
                ret = f["ret"].replace(" ", "")
                if ret == "void":
                    code = "%s { vrt::Count k; %s; } vrt::consume(c, static_cast<int>(c.os->rdstate()));" % (" ".join(pre), call)
                    flags |= 1
                else:
                    code = "%s auto&& r = [&]() -> decltype(auto) { vrt::Count k; return %s; }(); vrt::consume_or_stream(c, r);" % (" ".join(pre), call)
                    if not re.match(r"^(%s|bool|int|std::size_t|std::string|std::string_view|UnitSystem|Dimensions|std::optional<.*>)$" % re.escape(f["tparam"]), ret):
                        flags |= 1 | 16   # most likely a manipulator: vrt::consume_or_stream inserts it into the stream
                k = len(cases)
                cases.append("    case %d: { %s break; }" % (k, code))
                entries.append('  {"%s", &ops_enumfn%s, %d, %d},' % (name, ident, k, flags | self.tflag(code)))
                self.instances.append(name)
        if not cases:
            return ""
        return ("static void ops_enumfn%s(vrt::Ctx& c, int which) {\n  switch (which) {\n%s\n    default: break;\n  }\n}\n" % (ident, "\n".join(cases))
                + "static const vrt::OpEntry table_enumfn%s[] = {\n%s\n};\n" % (ident, "\n".join(entries))
                + "static const vrt::Registrar reg_enumfn%s{table_enumfn%s, %d};\n" % (ident, ident, len(entries)))

    def render_free_function_literals(self, rng, Ts):
        """C19: a literal-operand namespace-scope object for every constexpr free function template"""
        decls, entries = [], []
        for T in Ts:
            for name, call, types, is_constexpr in self.free_function_calls(T):
                if not is_constexpr:
                    continue
                iname = name.replace("Free|", "Free|literal:")
                if iname in self.exclude or name in self.exclude or (self.only is not None and iname not in self.only):
                    continue
                r = Rng((rng.u64() ^ hash_name(iname)) & ((1 << 64) - 1))
                args = [self.lit_template(t, T, r) for t in types]
                if any(a is None for a in args):
                    continue
                tmpl = call % tuple(args)
                uid = "freefn_%s_%d" % (TSHORT[T], len(entries))
                decls.append("static const vrt::ClitMark clit_b_%s{'B', \"%s\"};\nstatic const auto clit_%s = %s;\nstatic const vrt::ClitMark clit_e_%s{'E', \"%s\"};\n"
                             "static vrt::ClitHash clit_obj_%s() { return vrt::hash_of(clit_%s); }\nstatic vrt::ClitHash clit_run_%s() { return vrt::hash_of(%s); }"
                             % (uid, iname, uid, self.lit_render(tmpl, False), uid, iname, uid, uid, uid, self.lit_render(tmpl, True)))
                entries.append('  {"%s", &clit_obj_%s, &clit_run_%s},' % (iname, uid, uid))
                self.instances.append(iname)
        if not entries:
            return ""
        return ("\n".join(decls) + "\nstatic const vrt::ClitEntry clit_table_freefn[] = {\n%s\n};\nstatic const vrt::ClitRegistrar clit_reg_freefn{clit_table_freefn, %d};\n"
                % ("\n".join(entries), len(entries)))

    def render_model_dispatch(self, Ts):
        """virtual calls through const ConstitutiveModel& on every concrete model"""
        if "ConstitutiveModel" not in self.api.classes or not self.model_classes:
            return ""
        base_members = [m for m in self.api.classes["ConstitutiveModel"]["members"] if m["kind"] == "method" and m.get("virtual")]
        out = []
        for mc in self.model_classes:
            short = mc.split("::")[-1]
            for T in Ts:
                cases, entries = [], []
                for mem in base_members:
                    cts = [self.resolve(p["type"], T, None) for p in mem["params"]]
                    if any(ct is None for ct in cts):
                        self.skipped.append(("ConstitutiveModel", mem["decl"][:100], "unsupported parameter"))
                        continue
                    k = len(cases)
                    if not self.admit("%s<%s>|virtual:%s" % (mc, TSHORT[T], self.sig(mem))):
                        continue
                    pre = " ".join(self.decl(i, ct, T) for i, ct in enumerate(cts))
                    call = "base.%s(%s)" % (mem["name"], ", ".join("a%d" % i for i in range(len(cts))))
                    cases.append("    case %d: { const auto model = vrt::make<PhQ::%s<%s>>(c); const PhQ::ConstitutiveModel& base = model; %s auto r = [&] { vrt::Count k; return %s; }(); vrt::consume(c, r); break; }" % (k, mc, T, pre, call))
                    name = "%s<%s>|virtual:%s" % (mc, TSHORT[T], self.sig(mem))
                    entries.append('  {"%s", &ops_virt_%s_%s, %d, 0},' % (name, short, TSHORT[T], k))
                    self.instances.append(name)
                k = len(cases)
                if not self.admit("%s<%s>|virtual:operator<<" % (mc, TSHORT[T])):
                    continue
                cases.append("    case %d: { const auto model = vrt::make<PhQ::%s<%s>>(c); const PhQ::ConstitutiveModel& base = model; { vrt::Count k; (*c.os) << base; } vrt::consume(c, static_cast<int>(c.os->rdstate())); break; }" % (k, mc, T))
                name = "%s<%s>|virtual:operator<<" % (mc, TSHORT[T])
                entries.append('  {"%s", &ops_virt_%s_%s, %d, 1},' % (name, short, TSHORT[T], k))
                self.instances.append(name)
                if not cases:
                    continue
                out.append("static void ops_virt_%s_%s(vrt::Ctx& c, int which) {\n  switch (which) {\n%s\n    default: break;\n  }\n}" % (short, TSHORT[T], "\n".join(cases)))
                out.append("static const vrt::OpEntry table_virt_%s_%s[] = {\n%s\n};" % (short, TSHORT[T], "\n".join(entries)))
                out.append("static const vrt::Registrar reg_virt_%s_%s{table_virt_%s_%s, %d};" % (short, TSHORT[T], short, TSHORT[T], len(entries)))
        return "\n".join(out) + "\n"

    # ------------------------------------------------------------------ whole harness
    def class_list(self):
        names = []
        for n, c in self.api.classes.items():
            if re.match(r"^typename NumericType( = double)?$", c["tparams"]):
                if n in self.qnames or n in KNOWN_VALUE_TEMPLATES or n in self.model_classes:
                    names.append(n)
        return sorted(names)

    # ------------------------------------------------------------------ constant-initialised literal objects (C19)
    LIT_VALUES = ["1.0", "2.0", "-3.5", "0.125", "1234.5", "6.0e-5", "-98765.25", "0.75", "42.0", "1.0e7", "3.0", "10.0", "0.1", "0.001"]

    def lit_template(self, ctype, T, r):
        """a C++ expression of type `ctype` built from literals only, with numeric leaves written @N{value}@ so that it can be
        rendered twice: as plain literals (the compiler may constant-evaluate the library) and laundered through a volatile"""
        if ctype in ("float", "double", "long double"):
            return "@N{%s|%s}@" % (ctype, r.choice(self.LIT_VALUES))
        if ctype in ("int", "int8_t", "std::int8_t", "int32_t", "int64_t", "std::size_t", "size_t"):
            return "static_cast<%s>(%d)" % (ctype, r.rng(0, 3))
        if ctype == "bool":
            return "true"
        m = re.match(r"^std::array<(.+), (\d+)>$", ctype)
        if m:
            inner = [self.lit_template(m.group(1), T, r) for _ in range(int(m.group(2)))]
            return None if any(x is None for x in inner) else "%s{{%s}}" % (ctype, ", ".join(inner))
        m = re.match(r"^PhQ::Unit::(\w+)$", ctype)
        if m and m.group(1) in self.cat.units:
            return "%s::%s" % (ctype, r.choice(self.cat.units[m.group(1)]["enumerators"]))
        if ctype == "PhQ::UnitSystem":
            return "PhQ::UnitSystem::%s" % r.choice(self.cat.unit_systems)
        m = re.match(r"^PhQ::(PlanarVector|Vector|SymmetricDyad|Dyad)<(.+)>$", ctype)
        if m:
            n = SHAPES[m.group(1)]
            inner = [self.lit_template(m.group(2), T, r) for _ in range(n)]
            return None if any(x is None for x in inner) else "%s{%s}" % (ctype, ", ".join(inner))
        m = re.match(r"^PhQ::(Direction|PlanarDirection)<(.+)>$", ctype)
        if m:
            n = 3 if m.group(1) == "Direction" else 2
            return "%s{%s}" % (ctype, ", ".join(self.lit_template(m.group(2), T, r) for _ in range(n)))
        m = re.match(r"^PhQ::(\w+)<(.+)>$", ctype)
        if m and m.group(1) in self.qnames:
            q = self.qnames[m.group(1)]
            shape = "PhQ::%s<%s>" % (q["shape"], m.group(2)) if q["shape"] != "Scalar" else m.group(2)
            v = self.lit_template(shape, T, r)
            if v is None:
                return None
            if q["unit"]:
                tshort = TSHORT.get(m.group(2))
                if tshort and any(k.startswith("%s<%s>|Create(" % (m.group(1), tshort)) for k in self.exclude):
                    return None   # the library cannot compile Create<> for this numeric type (c20_exclude.json)
                e = r.choice(self.cat.units[q["unit"]]["enumerators"])
                return "%s::Create<PhQ::Unit::%s::%s>(%s)" % (ctype, q["unit"], e, v)
            return "%s{%s}" % (ctype, v)
        return None

    @staticmethod
    def lit_render(tmpl, launder):
        if launder:
            return re.sub(r"@N\{([^|]+)\|([^}]+)\}@", lambda m: "vrt::launder<%s>(static_cast<%s>(%sL))" % (m.group(1), m.group(1), m.group(2)), tmpl)
        return re.sub(r"@N\{([^|]+)\|([^}]+)\}@", lambda m: "static_cast<%s>(%sL)" % (m.group(1), m.group(2)), tmpl)

    def render_const_literals(self, cname, rng, T="double"):
        """for every constexpr public member of class cname: a namespace-scope object initialised by that call on literal
        operands (constant-initialised where the compiler can evaluate the library at compile time), to be compared in main
        with the same call on run-time operands"""
        info, members = self.class_members(cname)
        selfT = "PhQ::%s<%s>" % (cname, T)
        short = cname.replace("::", "_") + "_" + TSHORT[T]
        decls, entries = [], []
        seen = set()
        for mem in members:
            if "constexpr" not in mem.get("specs", []):
                continue
            name = mem.get("name", "")
            if mem["kind"] == "method" and (name in ("SetValue", "MutableValue", "Set") or (name.startswith("operator") and name.endswith("=") and name not in ("operator==", "operator!=", "operator<=", "operator>="))):
                continue
            if mem["kind"] == "ctor" and not mem["params"]:
                continue
            for variant, vsuffix in self.variants(info, mem, T):
                if variant.get("other"):
                    continue
                iname = "%s<%s>|literal:%s%s" % (cname, TSHORT[T], self.sig(mem), vsuffix)
                base = "%s<%s>|%s%s" % (cname, TSHORT[T], self.sig(mem), vsuffix)
                if iname in seen or base in self.exclude or iname in self.exclude or (self.only is not None and iname not in self.only):
                    continue
                r = Rng((rng.u64() ^ hash_name(iname)) & ((1 << 64) - 1))
                args = []
                ok = True
                for p in mem["params"]:
                    ct = self.resolve(p["type"], T, info, None)
                    if ct is None or p["mutable_ref"]:
                        ok = False; break
                    a = self.lit_template(ct, T, r)
                    if a is None:
                        ok = False; break
                    args.append(a)
                if not ok:
                    continue
                if mem["kind"] == "ctor":
                    tmpl = "%s(%s)" % (selfT, ", ".join(args))
                else:
                    if mem["ret"].replace("constexpr", "").replace("inline", "").strip() == "void":
                        continue
                    tname = ("template %s<%s>" % (name, variant["enum"])) if variant.get("enum") else name
                    if mem["static"]:
                        tmpl = "%s::%s(%s)" % (selfT, tname, ", ".join(args))
                    else:
                        selft = self.lit_template(selfT, T, r)
                        if selft is None:
                            continue
                        if name.startswith("operator"):
                            op = name[len("operator"):]
                            if len(args) == 1 and op not in ("()", "[]"):
                                tmpl = "((%s) %s (%s))" % (selft, op, args[0])
                            elif len(args) == 0 and op in ("-", "+"):
                                tmpl = "(%s(%s))" % (op, selft)
                            else:
                                continue
                        else:
                            tmpl = "(%s).%s(%s)" % (selft, tname, ", ".join(args))
                seen.add(iname)
                k = len(entries)
                uid = "%s_%d" % (short, k)
                decls.append("static const vrt::ClitMark clit_b_%s{'B', \"%s\"};\nstatic const auto clit_%s = %s;\nstatic const vrt::ClitMark clit_e_%s{'E', \"%s\"};\n"
                             "static vrt::ClitHash clit_obj_%s() { return vrt::hash_of(clit_%s); }\nstatic vrt::ClitHash clit_run_%s() { return vrt::hash_of(%s); }"
                             % (uid, iname, uid, self.lit_render(tmpl, False), uid, iname, uid, uid, uid, self.lit_render(tmpl, True)))
                entries.append('  {"%s", &clit_obj_%s, &clit_run_%s},' % (iname, uid, uid))
                self.instances.append(iname)
        if not entries:
            return ""
        return ("\n".join(decls) + "\nstatic const vrt::ClitEntry clit_table_%s[] = {\n%s\n};\nstatic const vrt::ClitRegistrar clit_reg_%s{clit_table_%s, %d};\n"
                % (short, "\n".join(entries), short, short, len(entries)))

    def all_instance_names(self):
        """names of every op instance the generator would produce on this tree (used to select subsets by name)"""
        saved = (self.instances, self.only)
        self.instances, self.only = [], None
        self.translation_units(1)
        names = list(self.instances)
        self.instances, self.only = saved
        return names

    def single_op_tu(self, name):
        """a TU containing only the named class op (used by calibration to test one op in isolation)"""
        m = re.match(r"^([\w:]+)<([fdl])>\|", name)
        if not m or m.group(1) not in self.api.classes:
            return None
        T = {v: k for k, v in TSHORT.items()}[m.group(2)]
        saved = self.only
        self.only = {name}
        body = self.render_class(m.group(1), [T])
        self.only = saved
        return '#include "c20_prelude.hpp"\nnamespace {\n' + body + "}  // namespace\n"

    @staticmethod
    def offset_operands(body):
        """optimised build: every operand made by vrt::make lives in a vrt::Off<X> (behind a pad of its own alignment)"""
        def rep(m):
            const, name, typ = m.group(1) or "", m.group(2), m.group(3)
            return "vrt::Off<%s> %s_h{vrt::make<%s>(c)}; %sauto& %s = %s_h.value;" % (typ, name, typ, const, name, name)
        body = re.sub(r"(const )?auto (\w+) = vrt::make<([^;]*?)>\(c\);", rep, body)
        # constructor ops: the object is constructed in place behind the pad (as an element of a container would be)
        def ctor(m):
            typ, args = m.group(1), m.group(2)
            return ("vrt::Off<%s> r_h = [&] { vrt::Count k; return vrt::Off<%s>(std::in_place%s%s); }(); auto& r = r_h.value;"
                    % (typ, typ, ", " if args.strip() else "", args))
        return re.sub(r"/\*ctor\*/ auto r = \[&\] \{ vrt::Count k; return ([^()]*?)\((.*?)\); \}\(\);", ctor, body)

    def translation_units(self, ntus=16, subset=None, inline_twins=False, at_exit_object=False, const_literals=None, offset_operands=False):
        """returns {filename: text}.  Every TU that includes the library pays a large fixed cost under the
        sanitizers (the dynamic initialisers of all enumeration tables are emitted in each), so the harness
        is packed into exactly `ntus` TUs of equal estimated weight.
        subset: optional {numeric type: set(class names)} restricting which class instantiations are built"""
        head = '#include "c20_prelude.hpp"\nnamespace {\n'
        tail = "}  // namespace\n"
        frags = []   # (weight, text)
        for n in self.class_list():
            info, members = self.class_members(n)
            for T in NUMERIC:
                if subset is not None and n not in subset.get(T, ()):
                    continue
                text = self.render_class(n, [T])
                if "vrt::OpEntry" in text:
                    frags.append((text.count("    case "), text))
        if const_literals is not None:
            for n in self.class_list():
                for T in NUMERIC:   # every class x every numeric type (cheap: one object and two small functions per member)
                    text = self.render_const_literals(n, const_literals, T)
                    if text:
                        frags.append((text.count("clit_obj_"), text))
        for U in sorted(self.cat.units):
            text = self.render_units([U], NUMERIC)
            if "vrt::OpEntry" in text:
                frags.append((text.count("    case ") * 2, text))
        text = self.render_enums()
        if "vrt::OpEntry" in text:
            # split per enumeration (each block starts with its ops function)
            blocks = re.split(r"(?=static void ops_enum_)", text)
            for b in blocks:
                if b.strip():
                    frags.append((b.count("    case "), b))
        text = self.render_base()
        if "vrt::OpEntry" in text:
            frags.append((text.count("    case "), text))
        text = self.render_free_functions(NUMERIC)
        if "vrt::OpEntry" in text:
            frags.append((text.count("    case "), text))
        if const_literals is not None:
            text = self.render_free_function_literals(const_literals, NUMERIC)
            if text:
                frags.append((text.count("clit_obj_"), text))
        if not inline_twins:
            text = self.render_enum_functions()
            if text:
                frags.append((text.count("    case "), text))
        text = self.render_model_dispatch(NUMERIC)
        if "vrt::OpEntry" in text:
            for b in re.split(r"(?=static void ops_virt_)", text):
                if b.strip():
                    frags.append((b.count("    case "), b))
        frags.sort(key=lambda f: -f[0])
        n = max(1, min(ntus, len(frags)))
        bins = [[0, []] for _ in range(n)]
        for w, t in frags:
            b = min(bins, key=lambda x: x[0])
            b[0] += w + 1
            b[1].append(t)
        tus = {}
        sizes = self.cat.interesting_integers()
        size_def = ("namespace vrt {\nconst long kInterestingSizes[] = {%s};\nconst int kNInterestingSizes = %d;\n}\n" % (
            ", ".join(str(v) for v in sizes) or "0", len(sizes)))
        for i, (w, ts) in enumerate(bins):
            if ts:
                body = "".join(ts)
                if offset_operands:
                    body = self.offset_operands(body)
                if inline_twins:
                    # C19 API sweep: every TU gets its own copy of the (small) enumeration-function table, FIRST, so that whichever
                    # TU the link order initialises first can run histories that combine them with its other ops
                    body = self.render_enum_functions("#tu%d" % i) + body
                if not tus:
                    tail_ = tail + size_def
                    if at_exit_object:
                        tail_ += ("namespace {\n// a user's namespace-scope object, defined after the library's includes, that uses the library in its destructor\n"
                                  "struct AtExitUser { ~AtExitUser() { vrt::run_exit_queue(); } };\nstatic const AtExitUser at_exit_user{};\n}\n")
                else:
                    tail_ = tail
                twins = ""
                if inline_twins:
                    # C19 API sweep: the same tables are also registered (= executed before main) from C++17
                    # inline variables, which clang initialises earlier than ordinary namespace-scope objects
                    for m in re.finditer(r"static const vrt::Registrar reg_(\w+)\{(table_\w+), (\d+)\};", body):
                        twins += "inline const vrt::RegistrarInline reg_inline_%s{%s, %s};\n" % (m.group(1), m.group(2), m.group(3))
                tus["c20_ops_%02d.cpp" % i] = head + body + tail_ + twins
        return tus
