"""Shared kernel: seeded PRNG, scratch dirs, parallel subprocess runner, ddmin, evidence,
known-findings file.  Nothing here reads a clock or any other ambient source for a *decision*;
clocks are read only to report wall time in the evidence."""
import atexit, hashlib, json, os, shutil, signal, subprocess, sys, tempfile, time
from concurrent.futures import ThreadPoolExecutor

VERIF = os.path.dirname(os.path.dirname(os.path.abspath(__file__)))
REPO = os.environ.get("VERIF_REPO", "/repo")
INCLUDE = os.path.join(REPO, "include")
MASK = (1 << 64) - 1
GOLDEN = 0x9E3779B97F4A7C15
NCPU = int(os.environ.get("VERIF_JOBS", "0")) or (os.cpu_count() or 4)


def splitmix64(x):
    x = (x + GOLDEN) & MASK
    z = x
    z = ((z ^ (z >> 30)) * 0xBF58476D1CE4E5B9) & MASK
    z = ((z ^ (z >> 27)) * 0x94D049BB133111EB) & MASK
    return z ^ (z >> 31)


def run_seed(base, i):
    """seed of run i of a batch: splitmix64(VERIF_SEED xor golden*i)"""
    return splitmix64((base ^ (GOLDEN * i)) & MASK)


class Rng:
    """xoshiro256** seeded through splitmix64.  The only source of choices in the python drivers."""

    def __init__(self, seed):
        s = seed & MASK
        self.s = []
        for _ in range(4):
            s = (s + GOLDEN) & MASK
            z = s
            z = ((z ^ (z >> 30)) * 0xBF58476D1CE4E5B9) & MASK
            z = ((z ^ (z >> 27)) * 0x94D049BB133111EB) & MASK
            self.s.append(z ^ (z >> 31))

    def u64(self):
        s = self.s
        r = (((s[1] * 5) & MASK) << 7 | ((s[1] * 5) & MASK) >> 57) & MASK
        r = (r * 9) & MASK
        t = (s[1] << 17) & MASK
        s[2] ^= s[0]
        s[3] ^= s[1]
        s[1] ^= s[2]
        s[0] ^= s[3]
        s[2] ^= t
        s[3] = ((s[3] << 45) | (s[3] >> 19)) & MASK
        return r

    def below(self, n):
        return self.u64() % n if n > 0 else 0

    def rng(self, lo, hi):  # inclusive
        return lo + self.below(hi - lo + 1)

    def chance(self, p):
        return (self.u64() >> 11) / float(1 << 53) < p

    def choice(self, xs):
        return xs[self.below(len(xs))]

    def shuffle(self, xs):
        xs = list(xs)
        for i in range(len(xs) - 1, 0, -1):
            j = self.below(i + 1)
            xs[i], xs[j] = xs[j], xs[i]
        return xs

    def sample(self, xs, k):
        return self.shuffle(xs)[: max(0, min(k, len(xs)))]


def env_seed():
    try:
        return int(os.environ.get("VERIF_SEED", "1"))
    except ValueError:
        return 1


def sha(b):
    if isinstance(b, str):
        b = b.encode()
    return hashlib.sha256(b).hexdigest()


# ---------------------------------------------------------------------------------- scratch dirs
_SCRATCH = []


def scratch(tag):
    base = os.environ.get("VERIF_SCRATCH", "/var/tmp")
    d = tempfile.mkdtemp(prefix="phq-verif.%s." % tag, dir=base)
    _SCRATCH.append(d)
    return d


def _cleanup():
    if os.environ.get("VERIF_KEEP"):
        return
    for d in _SCRATCH:
        shutil.rmtree(d, ignore_errors=True)


atexit.register(_cleanup)


def _on_term(signum, frame):
    _cleanup()
    os._exit(128 + signum)


for _s in (signal.SIGTERM, signal.SIGINT, signal.SIGHUP):
    try:
        signal.signal(_s, _on_term)
    except Exception:
        pass


# ---------------------------------------------------------------------------------- subprocesses
def run(cmd, cwd=None, env=None, timeout=None, stdin=None):
    """returns (rc, stdout_bytes, stderr_bytes); rc<0 = killed by signal -rc; rc=None = timeout"""
    try:
        p = subprocess.run(cmd, cwd=cwd, env=env, timeout=timeout, input=stdin,
                           stdout=subprocess.PIPE, stderr=subprocess.PIPE)
        return p.returncode, p.stdout, p.stderr
    except subprocess.TimeoutExpired as e:
        return None, e.stdout or b"", e.stderr or b""


def pmap(fn, items, jobs=None):
    items = list(items)
    if not items:
        return []
    with ThreadPoolExecutor(max_workers=jobs or NCPU) as ex:
        return list(ex.map(fn, items))


# ---------------------------------------------------------------------------------- minimisation
def ddmin(items, fails, budget=200):
    """classic ddmin over a list; `fails(sub)` is True when the *same* violation class persists.
    Returns a 1-minimal sublist (or the best found within `budget` evaluations)."""
    used = [0]

    def test(sub):
        if used[0] >= budget:
            return False
        used[0] += 1
        return fails(sub)

    n = 2
    items = list(items)
    while len(items) >= 2:
        chunk = max(1, len(items) // n)
        subsets = [items[i:i + chunk] for i in range(0, len(items), chunk)]
        reduced = False
        for s in subsets:
            if test(s):
                items, n, reduced = s, 2, True
                break
        if not reduced:
            for i in range(len(subsets)):
                comp = [x for j, s in enumerate(subsets) if j != i for x in s]
                if comp and test(comp):
                    items, n, reduced = comp, max(n - 1, 2), True
                    break
        if not reduced:
            if n >= len(items):
                break
            n = min(len(items), n * 2)
        if used[0] >= budget:
            break
    return items, used[0]


# ---------------------------------------------------------------------------------- known findings
def known_findings(prop):
    """KNOWN_FINDINGS.txt lines:  finding: property=<id> key=value ...   /   fixed: property=<id> <commit> ...
    Returns list of dicts for 'finding:' lines of this property.  'fixed:' lines suppress nothing."""
    out = []
    path = os.path.join(VERIF, "KNOWN_FINDINGS.txt")
    if not os.path.exists(path):
        return out
    for line in open(path, encoding="utf-8"):
        line = line.strip()
        if not line.startswith("finding:"):
            continue
        toks = line[len("finding:"):].split()
        kv = dict(t.split("=", 1) for t in toks if "=" in t)
        if kv.get("property") == prop:
            kv["_line"] = line
            out.append(kv)
    return out


# ---------------------------------------------------------------------------------- evidence
def write_evidence(prop, tier, seed, level, coverage, wall_s, violations, assumptions):
    evdir = os.environ.get("VERIF_EVIDENCE_DIR") or os.path.join(VERIF, "evidence")   # override only for tooling (seeded matrix)
    os.makedirs(evdir, exist_ok=True)
    ev = {"property_id": prop, "tier": tier, "seed": int(seed), "level": level,
          "coverage": coverage, "assumptions": assumptions, "wall_s": round(wall_s, 2),
          "violations": int(violations)}
    path = os.path.join(evdir, prop + ".json")
    tmp = path + ".tmp"
    with open(tmp, "w", encoding="utf-8") as f:
        json.dump(ev, f, indent=1, ensure_ascii=False, sort_keys=False)
        f.write("\n")
    os.replace(tmp, path)
    return path


def replay_dir():
    d = os.environ.get("VERIF_REPLAY_DIR") or os.path.join(VERIF, "replays")
    os.makedirs(d, exist_ok=True)
    return d


def repo_state():
    rc, out, _ = run(["git", "-C", REPO, "rev-parse", "HEAD"])
    head = out.decode().strip() if rc == 0 else "unknown"
    rc, out, _ = run(["git", "-C", REPO, "status", "--porcelain", "--", "include"])
    dirty = bool(out.strip()) if rc == 0 else None
    return {"head": head, "include_dirty": dirty}


def log(*a):
    print(*a, flush=True)
