"""Catalogue of the library's public surface, read from the current working tree using only
public, refactor-stable syntax (enum bodies, class heads, string literals).  It never parses table
bodies, so a change to a table can never change what the checks *expect*."""
import os, re
from .common import INCLUDE

PHQ = os.path.join(INCLUDE, "PhQ")
NUMERIC = ["float", "double", "long double"]
SHAPES = {"Scalar": 1, "PlanarVector": 2, "Vector": 3, "SymmetricDyad": 6, "Dyad": 9}


def _strip_comments(text):
    # remove // and /* */ comments but keep string literals intact
    out, i, n = [], 0, len(text)
    while i < n:
        c = text[i]
        if c == '"':
            j = i + 1
            while j < n and text[j] != '"':
                j += 2 if text[j] == "\\" else 1
            out.append(text[i:j + 1]); i = j + 1
        elif c == "R" and text[i:i + 3] == 'R"(':
            j = text.find(')"', i)
            out.append(text[i:j + 2]); i = j + 2
        elif c == "'" :
            j = i + 1
            while j < n and text[j] != "'":
                j += 2 if text[j] == "\\" else 1
            out.append(text[i:j + 1]); i = j + 1
        elif text[i:i + 2] == "//":
            j = text.find("\n", i)
            i = n if j < 0 else j
        elif text[i:i + 2] == "/*":
            j = text.find("*/", i)
            i = n if j < 0 else j + 2
        else:
            out.append(c); i += 1
    return "".join(out)


def _read(path):
    with open(path, encoding="utf-8") as f:
        return _strip_comments(f.read())


def _enum(text, name):
    m = re.search(r"enum\s+class\s+%s\s*(?::\s*[\w:]+\s*)?\{([^}]*)\}" % re.escape(name), text)
    if not m:
        return []
    out = []
    for tok in m.group(1).split(","):
        tok = tok.strip()
        if tok:
            out.append(tok.split("=")[0].strip())
    return out


def _literals(text):
    lits = []
    for line in text.splitlines():
        if line.lstrip().startswith("#"):
            continue
        for m in re.finditer(r'(?<!R)"((?:[^"\\]|\\.)*)"', line):
            s = m.group(1)
            if s and s not in lits:
                lits.append(s)
    return lits


class Catalogue:
    def __init__(self):
        self.units = {}        # name -> {enumerators, literals, header}
        self.quantities = []   # {name, header, shape, unit or None}
        self.unit_systems = []
        self.us_literals = []
        self.model_types = []
        self.model_literals = []
        self.models = []       # header stems in ConstitutiveModel/
        self._load()

    def _load(self):
        udir = os.path.join(PHQ, "Unit")
        for fn in sorted(os.listdir(udir)):
            if not fn.endswith(".hpp"):
                continue
            name = fn[:-4]
            text = _read(os.path.join(udir, fn))
            enums = _enum(text, name)
            if not enums:
                continue
            self.units[name] = {"enumerators": enums, "literals": _literals(text),
                                "header": "PhQ/Unit/%s.hpp" % name}
        text = _read(os.path.join(PHQ, "UnitSystem.hpp"))
        self.unit_systems = _enum(text, "UnitSystem")
        self.us_literals = _literals(text)
        if os.path.exists(os.path.join(PHQ, "ConstitutiveModel.hpp")):
            text = _read(os.path.join(PHQ, "ConstitutiveModel.hpp"))
            self.model_types = _enum(text, "Type")
            self.model_literals = [l for l in _literals(text)]
        # a tree whose spelling tables are no longer written as string literals next to the enumeration (generated or
        # registered at run time) still gets probed: with the enumerators' own names, plain and spaced
        def _fallback(enums):
            return list(dict.fromkeys(list(enums) + [re.sub(r"(?<!^)(?=[A-Z])", " ", e) for e in enums]))
        for d in self.units.values():
            if not d["literals"]:
                d["literals"] = _fallback(d["enumerators"])
        if not self.us_literals:
            self.us_literals = _fallback(self.unit_systems)
        if self.model_types and not self.model_literals:
            self.model_literals = _fallback(self.model_types)
        mdir = os.path.join(PHQ, "ConstitutiveModel")
        if os.path.isdir(mdir):
            self.models = sorted(f[:-4] for f in os.listdir(mdir) if f.endswith(".hpp"))
        for fn in sorted(os.listdir(PHQ)):
            if not fn.endswith(".hpp"):
                continue
            text = re.sub(r"\s+", " ", _read(os.path.join(PHQ, fn)))
            for m in re.finditer(
                    r"class (\w+) : public (Dimensional|Dimensionless)(Scalar|PlanarVector|Vector|SymmetricDyad|Dyad)"
                    r" ?< ?(?:Unit::(\w+) ?, ?)?NumericType ?> ?\{", text):
                q, kind, shape, unit = m.group(1), m.group(2), m.group(3), m.group(4)
                if kind == "Dimensional" and unit not in self.units:
                    continue
                self.quantities.append({"name": q, "header": "PhQ/%s" % fn, "shape": shape,
                                        "unit": unit if kind == "Dimensional" else None})

    MACRO_FLAGS = {"__AVX__": "-mavx", "__AVX2__": "-mavx2", "__AVX512F__": "-mavx512f", "__FMA__": "-mfma", "__SSE3__": "-msse3",
                   "__SSSE3__": "-mssse3", "__SSE4_1__": "-msse4.1", "__SSE4_2__": "-msse4.2", "__BMI__": "-mbmi", "__BMI2__": "-mbmi2",
                   "__F16C__": "-mf16c", "__POPCNT__": "-mpopcnt", "__LZCNT__": "-mlzcnt", "NDEBUG": "-DNDEBUG", "__FAST_MATH__": "-ffast-math",
                   "__OPTIMIZE__": "-O1", "_GLIBCXX_ASSERTIONS": "-D_GLIBCXX_ASSERTIONS", "_OPENMP": "-fopenmp", "__NO_MATH_ERRNO__": "-fno-math-errno",
                   "__FINITE_MATH_ONLY__": "-ffinite-math-only"}
    CPU_FLAGS = {"-mavx": "avx", "-mavx2": "avx2", "-mavx512f": "avx512f", "-mfma": "fma", "-msse3": "pni", "-mssse3": "ssse3", "-msse4.1": "sse4_1",
                 "-msse4.2": "sse4_2", "-mbmi": "bmi1", "-mbmi2": "bmi2", "-mf16c": "f16c", "-mpopcnt": "popcnt", "-mlzcnt": "abm"}

    def conditional_build_flags(self):
        """Every preprocessor conditional in the library's headers is a configuration dimension: returns the compiler flags
        that switch the conditionally compiled code ON (include guards excluded; CPU-feature flags only if this CPU has the
        feature), plus the macros that could not be mapped.  Empty on the pinned tree, which has no conditionals."""
        macros = set()
        for root, ds, fs in os.walk(PHQ):
            for f in fs:
                if not f.endswith(".hpp"):
                    continue
                with open(os.path.join(root, f), encoding="utf-8") as fh:
                    for line in fh:
                        m = re.match(r"^\s*#\s*(if|ifdef|ifndef|elif)\b(.*)$", line)
                        if not m:
                            continue
                        for tok in re.findall(r"[A-Za-z_]\w*", m.group(2)):
                            if tok in ("defined", "if", "ifdef", "ifndef", "elif") or re.match(r"^PHQ_\w*HPP$", tok) or tok.endswith("_HPP"):
                                continue
                            macros.add(tok)
        try:
            cpu = set(open("/proc/cpuinfo").read().split())
        except OSError:
            cpu = set()
        flags, unmapped, cxx20, clang = [], [], False, False
        for mname in sorted(macros):
            if mname in self.MACRO_FLAGS:
                fl = self.MACRO_FLAGS[mname]
                if fl in self.CPU_FLAGS and self.CPU_FLAGS[fl] not in cpu:
                    unmapped.append(mname + " (CPU lacks it)")
                elif fl not in flags:
                    flags.append(fl)
            elif mname.startswith("__cpp_") or mname == "__cplusplus":
                cxx20 = True
            elif mname in ("__clang__", "__clang_major__"):
                clang = True
            elif mname in ("__GNUC__", "__GNUG__", "__GNUC_MINOR__", "__has_include", "__has_builtin", "__has_cpp_attribute", "__has_attribute", "__x86_64__", "__linux__"):
                continue
            elif re.match(r"^[A-Z][A-Z0-9_]+$", mname):
                flags.append("-D%s=1" % mname)     # a library-specific switch: turn it on
            else:
                unmapped.append(mname)
        return {"flags": flags, "cxx20": cxx20, "clang": clang, "unmapped": unmapped, "macros": sorted(macros)}

    def interesting_integers(self):
        """integer literals that appear in the library's code (block sizes, capacities, thresholds): container and
        string sizes are also drawn right at and around them -- boundaries come from the code, not from us"""
        vals = set()
        for root, ds, fs in os.walk(PHQ):
            for f in fs:
                if not f.endswith(".hpp"):
                    continue
                t = _read(os.path.join(root, f))
                t = re.sub(r'"(?:[^"\\]|\\.)*"', '""', t)
                for m in re.finditer(r"(?<![\w.])(\d{1,7})(?![\w.]|\s*\.)(?:[uU]?[lL]{0,2})?(?![\w.])", t):
                    v = int(m.group(1))
                    if 5 <= v <= 1000000:
                        vals.add(v)
        out = set()
        for v in vals:
            for w in (v - 1, v, v + 1, 2 * v, 2 * v + 1):
                if 0 < w <= 1000001:
                    out.add(w)
        return sorted(out)[:400]

    def quantities_of_unit(self, unit):
        return [q for q in self.quantities if q["unit"] == unit]

    def summary(self):
        return {"unit_types": len(self.units),
                "unit_enumerators": sum(len(u["enumerators"]) for u in self.units.values()),
                "quantity_types": len(self.quantities),
                "dimensional_quantity_types": sum(1 for q in self.quantities if q["unit"]),
                "unit_systems": len(self.unit_systems), "model_types": len(self.model_types)}


if __name__ == "__main__":
    import json
    c = Catalogue()
    print(json.dumps(c.summary()))
    for u, d in c.units.items():
        print(u, len(d["enumerators"]), len(d["literals"]), [q["name"] for q in c.quantities_of_unit(u)])
    print([q["name"] for q in c.quantities if not q["unit"]])
    print(c.unit_systems, c.model_types, c.models)
