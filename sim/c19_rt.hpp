// Run-time support for generated C19 programs (static-initialisation schedules).
//
// Nothing in this header has a dynamic initialiser: the probe registry is a zero-initialised POD
// array defined in main.cpp, so registration cannot itself depend on initialisation order.
// This header includes no PhQ header; main.cpp includes only this header.
#pragma once
#include <array>
#include <cstdio>
#include <cstdlib>
#include <cstring>
#include <exception>
#include <optional>
#include <sstream>
#include <string>
#include <string_view>
#include <type_traits>
#include <typeinfo>
#include <unistd.h>
#include <vector>

namespace vrt {

enum Status { kOk = 0, kException = 1, kSkipped = 2, kLiteral = 3 };

struct Rec {
  int id;
  int status;                // status of the pre-main evaluation
  std::string (*pre_fn)();   // wrapped form: evaluated before main.  literal form: reads the object (called in main)
  std::string (*main_fn)();  // evaluated inside main
  char* pre;                 // hex of the pre-main canonical bytes (malloc'd), or exception type name
};

constexpr int kMaxRecs = 8192;
extern Rec g_recs[kMaxRecs];
extern int g_nrecs;

}  // namespace vrt
// Optional observer (own TU, always linked last): writes one char per library table, '0' while the
// table's storage is still all-zero (not yet dynamically initialised), '1' afterwards.
extern "C" int vrt_observe(char* out, int cap) __attribute__((weak));
namespace vrt {

inline void mark(char c, int id) {
  char buf[768];
  int n = std::snprintf(buf, 32, "@%c %d", c, id);
  if (c == 'B' && vrt_observe != nullptr) {
    buf[n++] = ' ';
    n += vrt_observe(buf + n, 700);
  }
  buf[n++] = '\n';
  if (n > 0) {
    ssize_t ignored = ::write(2, buf, static_cast<size_t>(n));
    (void)ignored;
  }
}

// VERIF_SKIP = "all" or a comma separated list of probe ids whose pre-main evaluation is skipped.
inline bool skipped(int id) {
  const char* s = std::getenv("VERIF_SKIP");
  if (s == nullptr || *s == 0) return false;
  if (std::strcmp(s, "all") == 0) return true;
  while (*s) {
    char* end = nullptr;
    long v = std::strtol(s, &end, 10);
    if (end == s) break;
    if (v == id) return true;
    s = (*end == ',') ? end + 1 : end;
  }
  return false;
}

template <class T>
inline T V(T x) {
  volatile T v = x;
  return v;
}

inline char* hexdup(const std::string& s) {
  static const char* d = "0123456789abcdef";
  char* p = static_cast<char*>(std::malloc(s.size() * 2 + 1));
  for (size_t i = 0; i < s.size(); ++i) {
    p[2 * i] = d[(static_cast<unsigned char>(s[i]) >> 4) & 15];
    p[2 * i + 1] = d[static_cast<unsigned char>(s[i]) & 15];
  }
  p[s.size() * 2] = 0;
  return p;
}

// ---- canonical bytes -------------------------------------------------------------------------
inline std::string c(bool b) { return b ? "T" : "F"; }
inline std::string c(float x) { char b[64]; std::snprintf(b, sizeof b, "f:%a", static_cast<double>(x)); return b; }
inline std::string c(double x) { char b[64]; std::snprintf(b, sizeof b, "d:%a", x); return b; }
inline std::string c(long double x) { char b[96]; std::snprintf(b, sizeof b, "l:%La", x); return b; }
inline std::string c(std::size_t x) { return "z:" + std::to_string(x); }
inline std::string c(const std::string& s) { return "s:" + s; }
inline std::string c(std::string_view s) { return "s:" + std::string(s); }
inline std::string c(const char* s) { return "s:" + std::string(s); }
template <class E, std::enable_if_t<std::is_enum<E>::value, int> = 0>
inline std::string c(E e) { return "e:" + std::to_string(static_cast<long long>(e)); }
template <class X>
inline std::string c(const std::optional<X>& o) { return o.has_value() ? "some(" + c(*o) + ")" : std::string("none"); }
template <class T, std::size_t N>
inline std::string c(const std::array<T, N>& a) {
  std::string r = "[";
  for (const T& x : a) r += c(x) + ",";
  return r + "]";
}
template <class T>
inline std::string c(const std::vector<T>& a) {
  std::string r = "v[";
  for (const T& x : a) r += c(x) + ",";
  return r + "]";
}
// everything a caller can observe about a stream after output
template <class F>
inline std::string cs(F f) {
  std::ostringstream os;
  f(os);
  return "os:" + os.str() + "|" + std::to_string(static_cast<int>(os.rdstate()));
}

// ---- probe forms -----------------------------------------------------------------------------
struct PreMain {  // wrapped form: evaluates fn during dynamic initialisation of this object
  PreMain(int id, std::string (*fn)()) {
    Rec& r = g_recs[g_nrecs++];
    r.id = id;
    r.pre_fn = fn;
    r.main_fn = fn;
    r.pre = nullptr;
    if (skipped(id)) {
      r.status = kSkipped;
      return;
    }
    mark('B', id);
    try {
      r.pre = hexdup(fn());
      r.status = kOk;
    } catch (const std::exception& e) {
      r.pre = hexdup(typeid(e).name());
      r.status = kException;
    } catch (...) {
      r.pre = hexdup("unknown");
      r.status = kException;
    }
    mark('E', id);
  }
};

struct Mark {  // brackets a literal-form object so a pre-main crash can be attributed to it
  Mark(char c, int id) { mark(c, id); }
};

struct Literal {  // literal form: the object was constructed at namespace scope; read it from main
  Literal(int id, std::string (*read)(), std::string (*fresh)()) {
    Rec& r = g_recs[g_nrecs++];
    r.id = id;
    r.pre_fn = read;
    r.main_fn = fresh;
    r.pre = nullptr;
    r.status = kLiteral;
  }
};

inline int run_main() {
  mark('M', 0);
  for (int i = 0; i < g_nrecs; ++i) {
    Rec& r = g_recs[i];
    int st = r.status;
    char* pre = r.pre;
    if (st == kLiteral) {
      try {
        pre = hexdup(r.pre_fn());
        st = kOk;
      } catch (const std::exception& e) {
        pre = hexdup(typeid(e).name());
        st = kException;
      } catch (...) {
        pre = hexdup("unknown");
        st = kException;
      }
    }
    int mst = kOk;
    char* mv = nullptr;
    try {
      mv = hexdup(r.main_fn());
    } catch (const std::exception& e) {
      mv = hexdup(typeid(e).name());
      mst = kException;
    } catch (...) {
      mv = hexdup("unknown");
      mst = kException;
    }
    std::printf("P %d %d %s %d %s\n", r.id, st, (pre && *pre) ? pre : "-", mst, (mv && *mv) ? mv : "-");
  }
  std::printf("DONE %d\n", g_nrecs);
  std::fflush(stdout);
  return 0;
}

}  // namespace vrt
