"""C20 engine — no exceptions (other than std::bad_alloc) and no undefined behaviour on finite inputs.

Simulated: the allocator's decision to fail (replaced global operator new) and the caller's stream
sink (a std::streambuf with a byte budget).  Real: every PhQ header, libstdc++, ASan, UBSan,
libstdc++ debug mode.  The python side generates plans (data), feeds them to long-lived worker
processes, attributes crashes to the op in flight, minimises and gates violations."""
import json, os, re, shutil, subprocess, sys, time
from . import common
from .common import Rng, run, pmap, sha, log, VERIF, INCLUDE
from .catalogue import Catalogue, NUMERIC
from .c20_gen import HarnessGen, TSHORT

PROP = "C20"
SIMDIR = os.path.dirname(os.path.abspath(__file__))
EXCLUDE_FILE = os.path.join(SIMDIR, "c20_exclude.json")
# UBSan's null check (one per member access) costs a third of the compile time and adds nothing here: a null access still
# dies under ASan.  alignment (+14 %) and vptr (free) stay on: a misaligned load is silent on x86 under every other tool.
SAN_FLAGS = ["-O0", "-fsanitize=address,undefined", "-fno-sanitize=null", "-fno-sanitize-recover=all", "-D_GLIBCXX_DEBUG"]
PLAIN_FLAGS = ["-O0", "-g1"]
OPT_FLAGS = ["-O3", "-g1"]       # what users ship: no sanitizer can see it, crashes / exceptions / invalid enumerators can be seen
PLAIN_STD = "-std=c++20"     # the memcheck build is also the C++20 build
TSAN_FLAGS = ["-O1", "-g1", "-fsanitize=thread", "-DVRT_CONCURRENT"]
WORKER_TIMEOUT = 900


# ------------------------------------------------------------------------------------ building
def load_exclude():
    try:
        with open(EXCLUDE_FILE) as f:
            return dict(json.load(f)["excluded"])
    except (OSError, ValueError, KeyError):
        return {}


class Harness:
    def __init__(self, work, flags, only=None, cxx="g++", ntus=15, label="san", subset=None, runtime="c20_rt.cpp",
                 no_models=False, inline_twins=False):
        self.subset = subset
        self.runtime = runtime
        self.no_models = no_models
        self.inline_twins = inline_twins
        self.offset_operands = False   # optimised build: operands behind a pad (see vrt::Off)
        self.literal_seed = None   # set by the C19 API sweep: also generate constant-initialised literal objects
        self.work = work
        self.flags = flags
        self.cxx = cxx
        self.label = label
        self.cat = Catalogue()
        self.exclude = load_exclude()
        self.only = only
        self.ntus = ntus
        self.dropped = {}     # ops dropped by the automatic fallback (new compile errors on this tree)
        self.exe = None
        self.gen = None
        self.build_s = 0.0
        self.tu_seconds = {}

    std = "-std=c++17"

    def _cxx(self, extra):
        return [self.cxx, self.std, "-I" + INCLUDE, "-I" + self.work] + self.flags + extra

    def build(self):
        t0 = time.time()
        os.makedirs(self.work, exist_ok=True)
        shutil.copy(os.path.join(SIMDIR, "c20_rt.hpp"), os.path.join(self.work, "c20_rt.hpp"))
        shutil.copy(os.path.join(SIMDIR, self.runtime), os.path.join(self.work, self.runtime))
        for rnd in range(8):
            excl = set(self.exclude) | set(self.dropped)
            self.gen = HarnessGen(self.cat, exclude=excl, only=self.only, no_models=self.no_models)
            with open(os.path.join(self.work, "c20_prelude.hpp"), "w") as f:
                f.write(self.gen.prelude())
            tus = self.gen.translation_units(self.ntus, self.subset, self.inline_twins, at_exit_object=(self.runtime == "c20_rt.cpp"),
                                             const_literals=(Rng(self.literal_seed) if self.literal_seed is not None else None),
                                             offset_operands=self.offset_operands)
            tus = {fn: text for fn, text in tus.items() if "vrt::OpEntry" in text}
            todo = []
            for fn, text in tus.items():
                path = os.path.join(self.work, fn)
                old = open(path).read() if os.path.exists(path) else None
                if old != text or not os.path.exists(path[:-4] + ".o"):
                    with open(path, "w") as f:
                        f.write(text)
                    todo.append(fn)
            todo.sort(key=lambda fn: -len(tus[fn]))
            if rnd == 0:
                todo.append(self.runtime)

            def comp(fn):
                src = os.path.join(self.work, fn)
                t = time.time()
                rc, out, err = run(self._cxx(["-c", src, "-o", src[:-4] + ".o"]), timeout=3600)
                self.tu_seconds[fn] = round(time.time() - t, 1)
                return fn, rc, err.decode(errors="replace")
            res = pmap(comp, todo)
            bad = [(fn, err) for fn, rc, err in res if rc != 0]
            if not bad:
                self.op_objects = [os.path.join(self.work, fn[:-4] + ".o") for fn in sorted(tus)]
                self.rt_object = os.path.join(self.work, self.runtime[:-4] + ".o")
                self.objects = self.op_objects + [self.rt_object]
                break
            # automatic fallback: drop exactly the ops named by 'required from here' and retry
            new = 0
            for fn, err in bad:
                if fn == self.runtime:
                    return "runtime does not compile:\n" + err[-3000:]
                lines = tus[fn].split("\n")
                for m in re.finditer(r"%s:(\d+):\d+:\s+(?:required from here|error|note: in instantiation)" % re.escape(fn), err):
                    ln = int(m.group(1)) - 1
                    mm = re.search(r"case (\d+): ", lines[ln]) if 0 <= ln < len(lines) else None
                    if not mm:
                        # a literal-operand object (C19) or its reader functions
                        cm = re.search(r"\bclit_(?:obj_|run_|b_|e_)?(\w+?)\b(?: =|\(\)|\{)", lines[ln]) if 0 <= ln < len(lines) else None
                        em = re.search(r'\{"([^"]+)", &clit_obj_%s, ' % re.escape(cm.group(1)), tus[fn]) if cm else None
                        if em and em.group(1) not in self.dropped:
                            first = re.search(r"error: ([^\n]*)", err)
                            self.dropped[em.group(1)] = (first.group(1) if first else "compile error")[:200]
                            new += 1
                        continue
                    # map (function, case) back to the instance name through the table entries
                    fnname = None
                    for back in range(ln, -1, -1):
                        fm = re.match(r"static void (ops_\w+)\(", lines[back])
                        if fm:
                            fnname = fm.group(1); break
                    em = re.search(r'\{"([^"]+)", &%s, %s, \d+\},' % (re.escape(fnname or "?"), mm.group(1)), tus[fn])
                    if em and em.group(1) not in self.dropped:
                        first = re.search(r"error: ([^\n]*)", err)
                        self.dropped[em.group(1)] = (first.group(1) if first else "compile error")[:200]
                        new += 1
            if new == 0:
                return "generated harness does not compile and the error cannot be attributed to an op:\n%s" % bad[0][1][-4000:]
        else:
            return "generated harness still does not compile after dropping %d ops" % len(self.dropped)
        exe = os.path.join(self.work, "c20_worker_" + self.label)
        rc, out, err = run([self.cxx] + self.flags + ["-pthread", "-o", exe] + self.objects, timeout=1800)
        if rc != 0:
            return "link failed:\n" + err.decode(errors="replace")[-4000:]
        self.exe = exe
        self.build_s = time.time() - t0
        if self.runtime != "c20_rt.cpp":
            self.ops = {n: 0 for n in self.gen.instances}
            return None
        rc, out, err = run([exe, "--list"], timeout=120)
        self.ops = {}
        for line in out.decode().splitlines():
            n, fl = line.rsplit("\t", 1)
            self.ops[n] = int(fl)
        return None


# ------------------------------------------------------------------------------------ plans
def op(name, seed, p0=-1, p1=-1, slot=-1, fault="none", fa=0, fb=0, vc=-1, thr=0):
    return {"name": name, "seed": seed & common.MASK, "p0": p0, "p1": p1, "slot": slot, "fault": fault, "fa": fa, "fb": fb, "vc": vc, "thr": thr}


def cfg(slot, budget, mode, state, flags):
    return {"cfg": [slot, budget, mode, state, flags]}


def plan_text(runs):
    out = []
    for r in runs:
        rid, ops = r[0], r[1]
        out.append("RUN %d %d" % (rid, r[2] if len(r) > 2 else 0))
        for o in ops:
            if "cfg" in o:
                out.append("CFG %d %d %d %d %d" % tuple(o["cfg"]))
            elif "mode" in o:
                out.append("MODE %d" % o["mode"])
            elif "exitop" in o:
                out.append("EXITOP %s %d" % (o["name"], o["seed"]))
            elif "pair" in o:
                out.append("PAIR %s %d %s %d %d" % (o["name"], o["seed"], o["pair"], o["seed2"], o["reps"]))
            elif "rep" in o:
                out.append("REP %s %d %d %d" % (o["name"], o["seed"], o["rep"], o["vary"]))
            else:
                out.append("OP %s %d %d %d %d %s %d %d %d %d" % (o["name"], o["seed"], o["p0"], o["p1"], o["slot"], o["fault"], o["fa"], o["fb"], o.get("vc", -1), o.get("thr", 0)))
        out.append("END")
    return "\n".join(out) + "\n"


def name_ok(n):
    return " " not in n and "\t" not in n


# ------------------------------------------------------------------------------------ executing
def classify_death(rc, stderr):
    s = stderr[-6000:]
    m = re.search(r"ERROR: AddressSanitizer: ([\w-]+)", stderr)
    if m:
        return "asan:" + m.group(1), stderr[max(0, m.start() - 100):m.start() + 1400]
    m = re.search(r"Assertion '([^']{0,100})' failed", stderr)
    if m:
        return "glibcxx-assertion:" + m.group(1), stderr[max(0, m.start() - 400):m.start() + 300]
    m = re.search(r"ERROR: AddressSanitizer: ([\w-]+)", s)
    if m:
        return "asan:" + m.group(1), s
    m = re.search(r"(?:WARNING|ERROR): ThreadSanitizer: ([\w -]+?)(?: \(pid| on |\n)", stderr)
    if m:
        loc = re.search(r"Location is ([^\n]{0,160})", stderr)
        fn = re.findall(r"#\d+ (PhQ::[^\n(<]{0,80})", stderr)
        return "tsan:" + m.group(1).strip().replace(" ", "-"), (stderr[m.start():m.start() + 1200] + ("\n" + loc.group(0) if loc else ""))
    m = re.search(r"runtime error: ([^\n]{0,120})", s)
    if m:
        msg = re.sub(r"0x[0-9a-f]+", "ADDR", m.group(1))
        msg = re.sub(r"-?\d+(\.\d+)?(e[+-]?\d+)?", "N", msg)
        return "ubsan:" + msg.strip(), s
    m = re.search(r"Error: ([^\n]{0,120})", s)
    if m and "_GLIBCXX" in s or (m and "attempt to" in s):
        return "glibcxx-debug:" + m.group(1).strip().rstrip("."), s
    if "Stack overflow in thread" in stderr:      # valgrind's wording (memcheck build)
        m = re.search(r"Stack overflow in thread[^\n]*", stderr)
        return "stack-overflow", stderr[max(0, m.start() - 200):m.start() + 1300]
    if rc is None:
        return "hang", s
    if rc < 0:
        import signal
        try:
            return "signal:" + signal.Signals(-rc).name, s
        except ValueError:
            return "signal:%d" % -rc, s
    return "exit:%s" % rc, s


WORKER_ENV = {"LC_ALL": "C"}     # default: the classic locale, whatever the caller's shell exports


def worker_env(extra=None):
    env = {k: v for k, v in os.environ.items() if not (k.startswith("LC_") or k in ("LANG", "LANGUAGE"))}
    env.update(extra if extra is not None else WORKER_ENV)
    return env


def run_worker(exe, runs, valgrind=False, env=None, timeout=None):
    """executes runs in one worker process, restarting after a death.  returns (events, stats)
    events: list of dict(run, op, kind='V'|'crash'|'terminate', cls, detail, fault)"""
    events = []
    stats = {}
    results = {}
    pending = list(runs)
    restarts = 0
    while pending:
        text = plan_text(pending)
        cmd = [exe]
        if valgrind:
            cmd = ["valgrind", "-q", "--error-exitcode=79", "--track-origins=no", "--exit-on-first-error=yes", exe]
        rc, out, err = run(cmd, stdin=text.encode(), timeout=timeout or WORKER_TIMEOUT, env=worker_env(env))
        out = out.decode(errors="replace")
        err = err.decode(errors="replace")
        inflight = None
        term = None
        done_runs = set()
        for line in out.splitlines():
            t = line.split(" ", 3)
            if t[0] == "B":
                inflight = (int(t[1]), int(t[2]), t[3] if len(t) > 3 else "")
            elif t[0] == "R":
                m = re.match(r"R (\d+) (\d+) (\w+) n=(\d+) fired=(\d+)(?: fx=(\d+))? h0=(\w+) len=(-?\d+)", line)
                if m:
                    results[(int(m.group(1)), int(m.group(2)))] = {"n": int(m.group(4)), "fired": int(m.group(5)), "h0": m.group(7)}
                inflight = None
            elif t[0] == "V":
                m = re.match(r"V (\d+) (\d+) (\S+) fault=(\S+)(.*)", line)
                if m:
                    events.append({"run": int(m.group(1)), "op": int(m.group(2)), "kind": "V", "cls": m.group(3), "fault": m.group(4), "detail": m.group(5).strip()})
            elif t[0] == "T":
                m = re.match(r"T (\d+) (\d+) (\S+) phase=(\S+) fired=(\d+)", line)
                if m:
                    term = {"type": m.group(3), "phase": m.group(4), "fired": int(m.group(5))}
            elif t[0] == "E":
                done_runs.add(int(t[1]))
            elif t[0] == "U":
                events.append({"run": int(t[1]), "op": int(t[2]), "kind": "unknown-op", "cls": "unknown-op", "fault": "-", "detail": t[3] if len(t) > 3 else ""})
            elif t[0] == "S":
                for kv in line.split()[1:]:
                    k, v = kv.split("=")
                    stats[k] = stats.get(k, 0) + int(v)
        if rc == 0 and inflight is None:
            break
        # the worker died: attribute to the op in flight and resume after it
        restarts += 1
        if inflight is None or restarts > 200:
            events.append({"run": -1, "op": -1, "kind": "infra", "cls": "worker-died-with-no-op-in-flight", "fault": "-",
                           "detail": "rc=%s %s" % (rc, err[-500:])})
            break
        rid, oi, name = inflight
        if term is not None:
            if term["type"] == "std::bad_alloc" and term["fired"] > 0:
                stats["terminate_bad_alloc_under_fault"] = stats.get("terminate_bad_alloc_under_fault", 0) + 1
            else:
                events.append({"run": rid, "op": oi, "kind": "terminate", "cls": "terminate:" + term["type"], "fault": term["phase"], "detail": ""})
        elif valgrind and rc == 79:
            m = re.search(r"==\d+== ([^\n]*(?:uninitialised|Invalid|Mismatched|Use of|Syscall param|Source and destination)[^\n]*)((?:\n==\d+== +(?:at|by) [^\n]*){0,10})", err)
            det = (m.group(1) + re.sub(r"==\d+== +", " ", m.group(2))) if m else err[-1500:]
            events.append({"run": rid, "op": oi, "kind": "crash", "cls": "memcheck:" + (m.group(1).strip() if m else "error"), "fault": "-", "detail": det[-1500:]})
        elif rc is None:
            # a worker that exceeds the time limit proves nothing about the property (a slow harness step looks the same
            # as a non-terminating library call): infrastructure, never a violation
            events.append({"run": -1, "op": -1, "kind": "infra", "cls": "worker-timeout", "fault": "-",
                           "detail": "worker exceeded %d s while executing %s (run %d op %d); the rest of its shard is not run" % (timeout or WORKER_TIMEOUT, name, rid, oi)})
            break   # on a tree that corrupts memory in a build that cannot see it, every later op may hang as well
        else:
            cls, tail = classify_death(rc, err)
            events.append({"run": rid, "op": oi, "kind": "crash", "cls": cls, "fault": "-", "detail": tail[-1500:]})
        newp = []
        for r in pending:
            r_id, ops = r[0], r[1]
            start = r[2] if len(r) > 2 else 0
            if r_id in done_runs:
                continue
            if r_id == rid:
                rest = ops[oi + 1 - start:]
                if rest:
                    newp.append((r_id, rest, oi + 1))   # op indices stay those of the original run
            else:
                newp.append(r)
        pending = newp
    return events, stats, results


def run_fresh(exe, runs, jobs=None):
    """one fresh worker process per run (cold-start plans)"""
    outs = pmap(lambda r: run_worker(exe, [r]), runs, jobs or common.NCPU)
    events, stats, results = [], {}, {}
    for ev, st, rs in outs:
        events += ev
        for k, v in st.items():
            stats[k] = stats.get(k, 0) + v
        results.update(rs)
    return events, stats, results


def run_parallel(exe, runs, jobs=None, valgrind=False, env=None, timeout=None):
    jobs = jobs or common.NCPU
    shards = [runs[i::jobs] for i in range(jobs)]
    shards = [s for s in shards if s]
    outs = pmap(lambda s: run_worker(exe, s, valgrind, env, timeout), shards, jobs)
    events, stats, results = [], {}, {}
    for ev, st, rs in outs:
        events += ev
        for k, v in st.items():
            stats[k] = stats.get(k, 0) + v
        results.update(rs)
    return events, stats, results


# ------------------------------------------------------------------------------------ plan generation
def family(name):
    return re.sub(r"<[fdl]>", "<T>", name)


def chunked(ops, rid0, size=64):
    return [(rid0 + i // size, ops[i:i + size]) for i in range(0, len(ops), size)]


def gen_enumeration(h, rng, draws=1, faults=True):
    """every op instance, every single-allocation failure position (and persistent failure from that
    position), every sink budget class x failure mode for stream ops"""
    ops = []
    for d in range(draws):
        for n in sorted(h.ops):
            ops.append(op(n, rng.u64(), fault="alloceach" if faults else "none"))
            if faults and h.ops[n] & 1:
                ops.append(op(n, rng.u64(), fault="sinkeach"))
    return ops


VALUE_CLASSES = 40


def gen_value_classes(h, rng):
    """every op instance with all numeric operands drawn from one special class (all zero, all max,
    all denormal, all 0.5, ...): degenerate vectors, singular tensors, vanishing denominators"""
    ops = []
    for n in sorted(h.ops):
        if h.ops[n] & 2:
            continue
        for vc in range(VALUE_CLASSES):
            ops.append(op(n, rng.u64(), vc=vc))
    return ops


def gen_sweeps(h, cat, thorough=False, rng=None):
    """exhaustive sweeps through explicit selectors: every enumerator through every table, every
    spelling literal, every numeric-grammar string, every byte string of length <= 1 (<= 2 in the
    thorough tier; a seeded sample of the two-byte strings in quick) through every parser"""
    ops = []
    rng = rng or Rng(12345)
    short_ops = sorted(n for n in h.ops if n.endswith("(short)"))
    for n in short_ops:
        idxs = list(range(65793)) if thorough else list(range(257)) + [257 + rng.below(65536) for _ in range(1200)]
        for i in idxs:
            ops.append(op(n, i, i, -1))

    def add(name, p0, p1=-1, seed=1, fault="none"):
        if name in h.ops:
            ops.append(op(name, seed * 2654435761 + p0 * 97 + (p1 + 1), p0, p1, fault=fault))
    enums = [("Unit::%s" % U, d["enumerators"], d["literals"], True) for U, d in cat.units.items()]
    enums.append(("UnitSystem", cat.unit_systems, cat.us_literals, False))
    if cat.model_types:
        enums.append(("ConstitutiveModel::Type", cat.model_types, cat.model_literals, False))
    for label, es, lits, is_unit in enums:
        n = len(es)
        for e in range(n):
            add("%s|Abbreviation" % label, e)
            add("%s|operator<<" % label, e)
            add("%s|operator<<" % label, e, seed=3, fault="sinkeach")
            if is_unit:
                add("%s|RelatedUnitSystem" % label, e)
        for i in range(len(lits)):
            add("%s|ParseEnumeration(literal)" % label, i)
            for rep in range(4):
                add("%s|ParseEnumeration(mutated)" % label, i, seed=i * 4 + rep + 7)
        if is_unit:
            for s in range(len(cat.unit_systems)):
                add("%s|ConsistentUnit" % label, s)
            U = label.split("::")[1]
            for t in "fdl":
                for e in range(n):
                    # every enumerator once as source and once as target, through every container kind
                    add("Unit::%s<%s>|Convert(scalar)" % (U, t), e, (e + 1) % n)
                    add("Unit::%s<%s>|ConvertInPlace(scalar)" % (U, t), e, (e + n // 2) % n)
                    add("Unit::%s<%s>|Convert(vector)" % (U, t), e, (e + 2) % n, seed=e)
                    add("Unit::%s<%s>|ConvertInPlace(array3)" % (U, t), (e + 3) % n, e)
                    add("Unit::%s<%s>|Convert(Dyad)" % (U, t), e, (e + 5) % n)
    for q in cat.quantities:
        if not q["unit"]:
            continue
        n = len(cat.units[q["unit"]]["enumerators"])
        for t in "fdl":
            for e in range(n):
                for m in ("Value(UnitType)const", "Print(UnitType)const", "JSON(UnitType)const", "XML(UnitType)const", "YAML(UnitType)const"):
                    add("%s<%s>|%s" % (q["name"], t, m), (e * 7 + 3) % n, e, seed=e)
    for t in "fdl":
        for i in range(128):
            add("Base|ParseNumber<%s>(grammar)" % t, i)
    return ops


def gen_cold(h, rng, nplans, alloc_counts=None):
    """cold-start plans, each run in its own fresh worker process: the first op executes with no warm-up
    and its k-th allocation failing (k small, enumerated), so state the library initialises lazily on
    first use is first filled under the fault; fault-free follow-up ops then run against that state"""
    names = sorted(h.ops)
    allocating = [n for n in names if (alloc_counts or {}).get(n, 1) > 0] or names
    printers = [n for n in names if re.search(r"\|(Print|JSON|XML|YAML)\(", n) or n.startswith("Base|Print") or h.ops[n] & 1]
    follow_pool = [n for n in names if n.startswith("Base|")] + printers
    plans = []
    for i in range(nplans):
        r = Rng(rng.u64())
        first = r.choice(printers if (printers and r.below(3)) else allocating)
        k = i % 8 if r.below(4) else r.below(24)
        ops = [op(first, r.u64(), fault="cold", fa=k, fb=(1 if r.below(5) == 0 else 0))]
        ops.append(op(first, r.u64()))                      # the same call again, fault-free
        for _ in range(r.rng(2, 6)):
            ops.append(op(r.choice(follow_pool if r.below(4) else names), r.u64()))
        plans.append(ops)
    return plans


def mem_available_gib():
    avail = 0.0
    try:
        for line in open("/proc/meminfo"):
            if line.startswith("MemAvailable:"):
                avail = int(line.split()[1]) / (1 << 20)
    except OSError:
        return 0.0
    for path, cur in (("/sys/fs/cgroup/memory.max", "/sys/fs/cgroup/memory.current"),
                      ("/sys/fs/cgroup/memory/memory.limit_in_bytes", "/sys/fs/cgroup/memory/memory.usage_in_bytes")):
        try:
            lim = open(path).read().strip()
            if lim.isdigit():
                used = int(open(cur).read().strip())
                avail = min(avail, max(0, int(lim) - used) / (1 << 30))
        except (OSError, ValueError):
            pass
    return avail


def gen_huge(h, rng, thorough):
    """text-taking ops (flag bit 4) with operands of 2^31 bytes (quick and thorough) and 2^32 + 5 bytes (thorough): one
    execution each, fault-free, in fresh worker processes.  The ops that walk the whole operand get a process of their own."""
    text = sorted(n for n in h.ops if h.ops[n] & 4)
    light = [n for n in text if "ParseEnumeration" in n]
    heavy = [n for n in text if n not in light]
    if not thorough:
        light = [n for n in light if n.endswith("(bytes)")]      # the four operand generators all hand over the same huge view
    plans = []
    for sz in ((0, 1) if thorough else (0,)):
        for n in heavy:
            plans.append([op(n, rng.u64(), fault="huge", fa=sz, fb=(1 if h.ops[n] & 8 else 0))])
        for i in range(0, len(light), 24):
            plans.append([op(n, rng.u64(), fault="huge", fa=sz, fb=(1 if h.ops[n] & 8 else 0)) for n in light[i:i + 24]])
    return plans


def gen_endurance(h, rng, thorough):
    """one op repeated many times in one process, with the same operands and with fresh operands every time"""
    names = sorted(h.ops)
    central = [n for n in names if n.startswith("Base|")] + [n for n in names if re.match(r"^(Unit::Time|Unit::Length|UnitSystem)\|", n)] + \
              [n for n in names if re.match(r"^Unit::(Time|MemoryRate)<d>\|Convert", n)] + \
              [n for n in names if re.match(r"^(Time|Length|Velocity|Stress)<d>\|(Print|JSON|XML|YAML|Value)\(", n)]
    plans = []
    big = 66000     # beyond any 16-bit counter
    hot = [n for n in central if re.search(r"^Base\|(Print<d>|ParseNumber<d>\(number-like\)|SnakeCase|Lowercase)|^Unit::Time\||^UnitSystem\|Abbreviation|"
                                           r"^Unit::Time<d>\|Convert(InPlace)?\((scalar|vector)\)|^(Time|Velocity)<d>\|(Print|JSON)\(|^Dimensions\|JSON", n)]
    for n in central:
        reps = big if (thorough or n in hot) else 1500
        plans.append([{"name": n, "seed": rng.u64(), "rep": reps, "vary": 0}])
        plans.append([{"name": n, "seed": rng.u64(), "rep": reps, "vary": 0x9E3779B97F4A7C15}])
    sample = rng.sample(names, 2000 if thorough else 300)
    for n in sample:
        plans.append([{"name": n, "seed": rng.u64(), "rep": 300, "vary": 0}, {"name": n, "seed": rng.u64(), "rep": 300, "vary": 0x9E3779B97F4A7C15}])
    return plans


def gen_threads(h, rng, nplans):
    """sequential use from two threads, one fresh process per plan: a call first made on a short-lived worker thread
    (joined), then on the main thread, then on another worker thread -- and the mirror image.  No two calls overlap."""
    names = sorted(h.ops)
    printers = [n for n in names if re.search(r"\|(Print|JSON|XML|YAML)\(", n) or n.startswith("Base|") or h.ops[n] & 1]
    plans = []
    for i in range(nplans):
        r = Rng(rng.u64())
        a = r.choice(printers if r.below(3) else names)
        b = r.choice(printers if r.below(2) else names)
        first_thr = i % 2
        ops = [op(a, r.u64(), thr=first_thr), op(a, r.u64(), thr=1 - first_thr), op(b, r.u64(), thr=first_thr), op(a, r.u64(), thr=1),
               op(b, r.u64(), thr=0), op(a, r.u64(), fault="alloc", fa=r.below(8), thr=1), op(a, r.u64(), thr=0)]
        plans.append(ops)
    return plans


def gen_pairs(h, rng, thorough):
    """true concurrency (ThreadSanitizer build): every op instance against itself on two threads at once (same
    function, different operands), plus seeded pairs of different ops that share a facility (printing, tables)"""
    names = sorted(h.ops)
    ops = []
    reps = 12
    for n in names:
        ops.append({"name": n, "seed": rng.u64(), "pair": n, "seed2": rng.u64(), "reps": reps})
    printers = [n for n in names if re.search(r"\|(Print|JSON|XML|YAML)\(", n) or n.startswith("Base|") or h.ops[n] & 1 or n.startswith("Unit::")]
    for _ in range(20000 if thorough else 3000):
        a = rng.choice(printers if rng.below(3) else names)
        b = rng.choice(printers if rng.below(3) else names)
        ops.append({"name": a, "seed": rng.u64(), "pair": b, "seed2": rng.u64(), "reps": reps})
    return ops


def gen_at_exit(h, rng, nplans):
    """one fresh process per plan: a few ordinary calls, then calls made from the destructor of a namespace-scope
    object defined after the library's includes (after main returned)"""
    names = sorted(h.ops)
    printers = [n for n in names if re.search(r"\|(Print|JSON|XML|YAML)\(", n) or n.startswith("Base|") or h.ops[n] & 1]
    plans = []
    for i in range(nplans):
        r = Rng(rng.u64())
        ops = []
        picks = [r.choice(printers if r.below(3) else names) for _ in range(r.rng(1, 4))]
        if i % 3:
            ops += [op(n, r.u64()) for n in picks]          # state is created during the run, then used at exit
        ops += [{"exitop": True, "name": n, "seed": r.u64()} for n in picks + [r.choice(names)]]
        plans.append(ops)
    return plans


def gen_history(h, rng, nplans, maxops=40):
    """swarm-style plans: each run enables a random subset of op families and fault kinds; stream
    slots persist across the ops of a run, so earlier sink faults and state bits shape later calls"""
    names = sorted(h.ops)
    fams = {}
    for n in names:
        fams.setdefault(n.split("|")[0].split("<")[0], []).append(n)
    famkeys = sorted(fams)
    stream_ops = [n for n in names if h.ops[n] & 1]
    printers = [n for n in names if re.search(r"\|(Print|JSON|XML|YAML)\(", n)]
    parsers = [n for n in names if h.ops[n] & 2]
    runs = []
    for i in range(nplans):
        r = Rng(rng.u64())
        enabled = r.sample(famkeys, r.rng(1, 6))
        pool = [n for f in enabled for n in fams[f]]
        kinds = r.sample(["alloc", "allocfrom", "sink", "slot"], r.rng(1, 4))
        ops = []
        for _ in range(r.rng(4, maxops)):
            w = r.below(100)
            if "slot" in kinds and w < 12:
                flags = r.below(256) | (r.below(40) << 8) | (r.below(2) << 14)
                if r.below(8):
                    flags &= ~128
                ops.append(cfg(r.below(4), r.choice([-1, 0, 1, 2, 5, 17, 40, 200]), r.below(3), r.choice([0, 0, 0, 1, 2, 4, 3]), flags))
                continue
            if w < 35 and stream_ops:
                n = r.choice(stream_ops)
            elif w < 50 and printers:
                n = r.choice(printers)
            elif w < 60 and parsers:
                n = r.choice(parsers)
            else:
                n = r.choice(pool)
            fault, fa, fb, slot = "none", 0, 0, -1
            if h.ops[n] & 1 and "slot" in kinds and r.below(10) < 7:
                slot = r.below(4)
            f = r.below(100)
            if f < 30 and "alloc" in kinds:
                fault, fa = "alloc", r.below(64)
            elif f < 42 and "allocfrom" in kinds:
                fault, fa = "allocfrom", r.below(64)
            elif f < 60 and "sink" in kinds and h.ops[n] & 1 and slot < 0:
                fault, fa, fb = "sink", r.below(400), r.below(24)
            ops.append(op(n, r.u64(), slot=slot, fault=fault, fa=fa, fb=fb))
        runs.append(ops)
    return runs


# ------------------------------------------------------------------------------------ violations
def vkey(ev, ops_of_run):
    name = "?"
    o = ops_of_run.get((ev["run"], ev["op"]))
    if o is not None and "name" in o:
        name = o["name"]
    cls = ev["cls"]
    return (cls, family(name))


REPRO_TIMEOUTS = [0]      # reproduction attempts that ran into the time limit (a hang proves nothing and costs minutes)


def reproduces(exe, plan_ops, want_cls, want_name, valgrind=False, env=None):
    if REPRO_TIMEOUTS[0] >= 3:
        return None
    tmo = None if any(o.get("fault") == "huge" for o in plan_ops) else 300
    ev, st, rs = run_worker(exe, [(0, plan_ops)], valgrind, env, tmo)
    if any(e["cls"] == "worker-timeout" for e in ev):
        REPRO_TIMEOUTS[0] += 1
    for e in ev:
        if e["cls"] == want_cls and 0 <= e["op"] < len(plan_ops) and plan_ops[e["op"]].get("name") == want_name:
            return e
    return None


def precise_fault(o, ev):
    """turn an enumerating fault into the single fault position the worker reported"""
    o = dict(o)
    if "rep" in o or "exitop" in o or "pair" in o:
        return o
    f = ev.get("fault", "")
    m = re.match(r"^alloc2:(\d+):(\d+)$", f)
    if m:
        o["fault"], o["fa"], o["fb"] = "alloc2", int(m.group(1)), int(m.group(2))
        return o
    m = re.match(r"^(alloc|allocfrom):(\d+)$", f)
    if m:
        o["fault"], o["fa"], o["fb"] = m.group(1), int(m.group(2)), 0
        return o
    if f in ("sink:nullbuf", "sink:flags") or f.startswith("sink:width:") or f.startswith("sink:maskon:") or f.startswith("sink:flags2:") or f.startswith("alloc3:"):
        return o   # only reachable through sinkeach: keep the enumerating fault in the replay
    m = re.match(r"^sink:(-?\d+):(\d+):(\d+)$", f)
    if m:
        o["fault"], o["fa"], o["fb"] = "sink", max(0, int(m.group(1))), int(m.group(2)) + 3 * int(m.group(3))
        return o
    if f == "none":
        o["fault"], o["fa"], o["fb"] = "none", 0, 0
    return o


def minimise(exe, run_ops, ev, valgrind=False, budget=120, env=None):
    target = run_ops[ev["op"]]
    name = target["name"]
    cls = ev["cls"]
    used = [0]
    prefix = run_ops[:ev["op"]]
    cand_target = precise_fault(target, ev)

    def fails(sub_prefix, tgt):
        used[0] += 1
        return reproduces(exe, list(sub_prefix) + [tgt], cls, name, valgrind, env) is not None
    tgt = target
    if "rep" in target or "exitop" in target or "pair" in target:
        if fails([], target):
            return [target], used[0]
        keep, n_ = common.ddmin(prefix, lambda sub: fails(sub, target), budget=budget)
        return (list(keep) + [target]) if fails(keep, target) else (list(prefix) + [target]), used[0] + n_
    if cand_target != target and fails(prefix, cand_target):
        tgt = cand_target
    if tgt["fault"] != "none":
        t2 = dict(tgt, fault="none", fa=0, fb=0)
        if fails(prefix, t2):
            tgt = t2
    if tgt.get("slot", -1) >= 0:
        t2 = dict(tgt, slot=-1)
        if fails(prefix, t2):
            tgt = t2
    if fails([], tgt):
        return [tgt], used[0]
    keep, n = common.ddmin(prefix, lambda sub: fails(sub, tgt), budget=budget)
    if fails(keep, tgt):
        return list(keep) + [tgt], used[0] + n
    return list(prefix) + [target], used[0] + n


def known_match(cls, fam):
    import fnmatch
    for k in common.known_findings(PROP):
        if "class" in k and not cls.startswith(k["class"]):
            continue
        if "op" in k and not fnmatch.fnmatch(fam, k["op"]):
            continue
        return k
    return None


def write_replay(seed, n, build, plan_ops, ev, name):
    path = os.path.join(common.replay_dir(), "C20-%d-%d.json" % (seed, n))
    with open(path, "w", encoding="utf-8") as f:
        json.dump({"property": PROP, "seed": seed, "build": build,
                   "violation": {"class": ev["cls"], "op": name, "fault": ev.get("fault"), "detail": ev.get("detail", "")[-1200:]},
                   "environment": ev.get("env") if ev.get("env") is not None else WORKER_ENV,
                   "plan": plan_ops, "repo": common.repo_state(),
                   "how_to_replay": "./check C20 --replay <this file>  (builds a harness holding only these ops from /repo's current tree, "
                                    "runs the plan in a fresh worker; every operand derives from the op's seed)"}, f, indent=1)
        f.write("\n")
    return path


def replay(path, quiet=False):
    with open(path, encoding="utf-8") as f:
        plan = json.load(f)
    names = {o["name"] for o in plan["plan"] if "name" in o}
    valgrind = plan.get("build") == "plain-memcheck"
    names |= {o["pair"] for o in plan["plan"] if "pair" in o}
    flags_ = PLAIN_FLAGS if valgrind else (TSAN_FLAGS if plan.get("build") == "tsan" else SAN_FLAGS)
    if plan.get("build") == "cond":
        flags_ = SAN_FLAGS + Catalogue().conditional_build_flags()["flags"]
    if plan.get("build") == "uchar":
        flags_ = SAN_FLAGS + ["-funsigned-char"]
    if plan.get("build") == "opt":
        flags_ = OPT_FLAGS
    h = Harness(common.scratch("c20r"), flags_, only=names, ntus=1, label="replay")
    if valgrind:
        h.std = PLAIN_STD
    h.offset_operands = plan.get("build") == "opt"
    err = h.build()
    if err:
        if not quiet:
            log("replay: infrastructure problem: " + err)
        return 2
    missing = names - set(h.ops)
    if missing:
        if not quiet:
            log("replay: ops no longer exist on this tree: %s" % sorted(missing))
        return 2
    want = plan["violation"]
    e = reproduces(h.exe, plan["plan"], want["class"], want["op"], valgrind, plan.get("environment"))
    if e:
        if not quiet:
            log("replay: reproduced %s in %s (fault %s)" % (e["cls"], want["op"], e.get("fault")))
            if e.get("detail"):
                log("  " + e["detail"][-800:].replace("\n", "\n  "))
            log("VIOLATION property=%s replay=%s" % (PROP, path))
        return 1
    if not quiet:
        log("replay: violation not reproduced on the current tree")
    return 0


# ------------------------------------------------------------------------------------ main
def quick_subset(h_cat_classes, seed):
    """quick tier: every class for double; a seeded third of the classes for float and long double"""
    classes = sorted(h_cat_classes)
    r = Rng(common.run_seed(seed, 77))
    sub = {"double": set(classes)}
    for T in ("float", "long double"):
        sub[T] = set(r.sample(classes, max(1, len(classes) // 3)))
    return sub


def main(tier, seed):
    t0 = time.time()
    thorough = tier == "thorough"
    rng = Rng(common.run_seed(seed, 0))
    log("C20 tier=%s VERIF_SEED=%d" % (tier, seed))
    root = common.scratch("c20")
    probe = HarnessGen(Catalogue())
    subset = None if thorough else quick_subset(probe.class_list(), seed)
    # one compile wave on 16 cores: every TU pays ~18 s (sanitizers) for the library's table initialisers
    nsan = max(1, (common.NCPU * 9) // 16)
    nplain = max(1, (common.NCPU * 3) // 16)
    ntsan = max(1, common.NCPU - nsan - nplain - 1)   # one core's worth goes to the unsigned-char build
    hs = Harness(os.path.join(root, "san"), SAN_FLAGS, subset=subset, label="san", ntus=nsan)
    psub = subset if thorough else {"double": subset["double"]}
    hp = Harness(os.path.join(root, "plain"), PLAIN_FLAGS, subset=psub, label="plain", ntus=nplain)
    # language-version portability: the library supports "C++17 or any more recent standard", and C++20 changes overload
    # resolution for comparison operators (rewritten and reversed candidates).  Uninitialised reads do not depend on the language
    # version, so the memcheck build doubles as the C++20 build at no extra compile cost.
    hp.std = PLAIN_STD
    # concurrent build (ThreadSanitizer): classes x double + all unit/enum/base/model ops in quick, everything in thorough
    tsub = subset if thorough else {"double": subset["double"]}
    ht = Harness(os.path.join(root, "tsan"), TSAN_FLAGS, subset=tsub, label="tsan", ntus=ntsan)
    # conditionally compiled code (#if __AVX__, NDEBUG, a library switch ...): one more sanitizer build with the conditions ON
    cond = hs.cat.conditional_build_flags()
    hx = None
    if cond["flags"] or cond["cxx20"]:
        xflags = [f for f in SAN_FLAGS] + cond["flags"]
        hx = Harness(os.path.join(root, "cond"), xflags, subset=(subset if thorough else {"double": subset["double"]}), label="cond", ntus=max(2, common.NCPU // 3))
        if cond["cxx20"]:
            hx.std = "-std=c++20"
        log("conditional code found in the headers (%s): extra sanitizer build with %s%s" % (
            ", ".join(cond["macros"]), " ".join(cond["flags"]), " -std=c++20" if cond["cxx20"] else ""))
    # portability build: plain char is unsigned on ARM/PowerPC Linux (and with -funsigned-char anywhere); the text-handling
    # ops (parsers, string helpers, enumeration tables, Dimensions) are rebuilt that way under the sanitizers
    text_ops = None
    if not thorough:
        text_ops = {n for n in HarnessGen(Catalogue()).all_instance_names() if re.match(r"^(Base\||Unit::\w+\||UnitSystem\||ConstitutiveModel::Type\||Dimensions\||Dimension::|Free\|)", n)}
    hu = Harness(os.path.join(root, "uchar"), SAN_FLAGS + ["-funsigned-char"], only=text_ops, subset=(None if thorough else subset), label="uchar",
                 ntus=(max(2, common.NCPU // 3) if thorough else 1))
    # optimised build (what users ship): -O3, no sanitizer, every operand behind a pad of its own alignment (vrt::Off) so that
    # objects sit where members and container elements sit.  Undefined behaviour that only an optimiser turns into a crash
    # (a false alignment or unreachability hint, a missing return, an uninitialised bool) is invisible to every -O0 build.
    ho = Harness(os.path.join(root, "opt"), OPT_FLAGS, subset=(subset if thorough else {"double": subset["double"]}), label="opt",
                 ntus=max(2, common.NCPU // (3 if thorough else 4)))
    ho.offset_operands = True
    # the builds share the cores; the sanitizer build is the long pole
    errs = pmap(lambda h: h.build(), [h_ for h_ in (hs, hp, ht, hx, hu, ho) if h_ is not None], 6)
    for e in errs:
        if e:
            log("INFRASTRUCTURE: " + e)
            return 2
    log("built: %d op instances (sanitizer build %.0fs, plain build %.0fs, thread-sanitizer build %.0fs); %d ops excluded as uncompilable on the pinned tree, %d dropped now" % (
        len(hs.ops), hs.build_s, hp.build_s, ht.build_s, len(hs.gen.excluded_hit), len(hs.dropped)))
    cat = hs.cat
    all_events = []      # (build, run_ops, event)
    totals = {}
    distinct = set()
    bigrams = set()
    evaluations = 0

    def execute(label, exe, runs, valgrind=False, build="san", fresh=False, env=None, precomputed=None):
        nonlocal evaluations
        t = time.time()
        # builds that cannot see memory corruption (thread sanitizer, optimised) get a shorter leash: their batches take seconds
        tmo = 300 if build in ("tsan", "opt") else None
        ev, st, rs = precomputed if precomputed is not None else (run_fresh(exe, runs) if fresh else run_parallel(exe, runs, valgrind=valgrind, env=env, timeout=tmo))
        if env is not None:
            for e in ev:
                e["env"] = env
        by_run = {r[0]: r[1] for r in runs}
        for e in ev:
            if e["kind"] == "infra":
                all_events.append((build, None, e))
            else:
                all_events.append((build, by_run.get(e["run"]), e))
        for k, v in st.items():
            totals[label + "." + k] = totals.get(label + "." + k, 0) + v
            totals[k] = totals.get(k, 0) + v
        for (rid, oi), r in rs.items():
            ops_ = by_run.get(rid)
            if not ops_ or oi >= len(ops_) or "name" not in ops_[oi]:
                continue
            o = ops_[oi]
            n = r["n"]
            if "rep" in o or "exitop" in o or "pair" in o:
                continue
            if o["fault"] == "alloceach":
                for k in range(n):
                    distinct.add((o["name"], "alloc", k))
                    if k + 1 < n:
                        distinct.add((o["name"], "allocfrom", k))
                    if 2 <= n <= 12:
                        for k2 in range(k + 1, n):
                            distinct.add((o["name"], "alloc2", k, k2))
                    if 3 <= n <= 8:
                        for k2 in range(k + 1, n):
                            for k3 in range(k2 + 1, n):
                                distinct.add((o["name"], "alloc3", k, k2, k3))
            elif o["fault"] in ("alloc", "allocfrom") and n > 0:
                distinct.add((o["name"], o["fault"], o["fa"] % n))
            elif o["fault"] == "huge":
                distinct.add((o["name"], "huge", o["fa"]))
            elif o["fault"] == "cold" and r["fired"] > 0:
                distinct.add((o["name"], "cold", o["fa"], o["fb"]))
            elif o["fault"] == "sinkeach":
                for b in range(5):
                    for m in range(3):
                        distinct.add((o["name"], "sink", b, m))
            elif o["fault"] == "sink":
                distinct.add((o["name"], "sink", o["fa"] % 7, o["fb"] % 3))
            if oi > 0 and "name" in ops_[oi - 1]:
                bigrams.add((family(ops_[oi - 1]["name"]).split("|")[0], family(o["name"]).split("|")[0]))
        log("  %-22s runs=%d ops=%d events=%d  %.1fs" % (label, len(runs), sum(len(r[1]) for r in runs), len(ev), time.time() - t))
        return rs

    # huge text operands (2^31 / 2^32+5 bytes): a few long executions on a few cores, started now and collected at the end
    import threading
    huge_box = {}
    huge_thread = None
    huge_runs = [(950000 + i, ops_) for i, ops_ in enumerate(gen_huge(hs, Rng(common.run_seed(seed, 21)), thorough))]
    avail = mem_available_gib()
    huge_jobs = 4 if avail >= 40 else (2 if avail >= 20 else (1 if avail >= 12 else 0))
    if os.environ.get("VERIF_C20_HUGE", "1") == "0":
        huge_jobs = 0
    if huge_jobs and huge_runs:
        def _huge():
            t_ = time.time()
            huge_box["out"] = run_fresh(hs.exe, huge_runs, jobs=huge_jobs)
            huge_box["wall"] = time.time() - t_
        huge_thread = threading.Thread(target=_huge)
        huge_thread.start()
    else:
        log("  huge-operand batch skipped: %.1f GiB of memory available (needs 12)" % avail)
    # 0. determinism: the same plans on different worker assignments must give identical (n, hash) per op
    det_runs = [(i, ops_) for i, ops_ in enumerate(gen_history(hs, Rng(common.run_seed(seed, 5)), 48 if thorough else 16))]
    ev1, st1, r1 = run_parallel(hs.exe, det_runs, jobs=1)
    ev2, st2, r2 = run_parallel(hs.exe, list(reversed(det_runs)), jobs=min(16, common.NCPU))
    sig1 = sorted((e["run"], e["op"], e["cls"], e.get("fault", "")) for e in ev1)
    sig2 = sorted((e["run"], e["op"], e["cls"], e.get("fault", "")) for e in ev2)
    if r1 != r2 or sig1 != sig2:
        diff = [k for k in r1 if r1.get(k) != r2.get(k)][:5]
        log("INFRASTRUCTURE: non-deterministic execution: per-op results differ between worker assignments at %s %s" % (
            diff, [x for x in sig1 if x not in sig2][:3] + [x for x in sig2 if x not in sig1][:3]))
        return 2
    log("  determinism sample: %d plans x 2 worker assignments identical (%d op results)" % (len(det_runs), len(r1)))
    # 1. enumeration: every instance x every single-fault position
    enum_ops = gen_enumeration(hs, rng, draws=(10 if thorough else 2))
    enum_rs = execute("enumeration", hs.exe, chunked(enum_ops, 0))
    enum_runs = dict(chunked(enum_ops, 0))
    alloc_counts = {}
    for (rid, oi), r in enum_rs.items():
        o = enum_runs[rid][oi]
        alloc_counts[o["name"]] = max(alloc_counts.get(o["name"], 0), r["n"])
    # 2. exhaustive selector sweeps (fault-free) + the same under allocation faults for a sample
    sweep = gen_sweeps(hs, cat, thorough, Rng(common.run_seed(seed, 9)))
    execute("sweeps", hs.exe, chunked(sweep, 100000))
    if hx is not None:
        execute("conditional-build", hx.exe, chunked(gen_enumeration(hx, rng, draws=1) + gen_enumeration(hx, rng, draws=(40 if thorough else 8), faults=False)
                                                     + [o for o in gen_value_classes(hx, rng) if thorough or o["vc"] in (0, 2, 5, 6, 9)], 60000, size=512), build="cond")
    execute("unsigned-char-build", hu.exe, chunked(gen_enumeration(hu, rng, draws=1) + gen_enumeration(hu, rng, draws=(60 if thorough else 30), faults=False)
                                                   + gen_sweeps(hu, cat, False, Rng(common.run_seed(seed, 10))), 40000, size=512), build="uchar")
    execute("optimised-build", ho.exe, chunked(gen_enumeration(ho, rng, draws=1) + gen_enumeration(ho, rng, draws=(60 if thorough else 12), faults=False)
                                               + [o for o in gen_value_classes(ho, rng) if thorough or o["vc"] in (0, 2, 5, 6, 9, 24)], 20000, size=512), build="opt")
    # 3. fault-free batch on its own (so the relaxation under faults can hide nothing)
    ff = gen_enumeration(hs, rng, draws=(300 if thorough else 24), faults=False)
    execute("fault-free", hs.exe, chunked(ff, 200000, size=512))
    vcs = gen_value_classes(hs, rng)
    execute("value-classes", hs.exe, chunked(vcs, 250000, size=512))
    # 4. histories
    nplans = int(os.environ.get("VERIF_C20_PLANS", "200000" if thorough else "3000"))
    hist = gen_history(hs, rng, nplans)
    execute("histories", hs.exe, [(300000 + i, ops_) for i, ops_ in enumerate(hist)])
    # 3b. ambient configuration: the same fault-free batch in processes whose environment names a locale that
    #     is not installed, and one that selects a UTF-8 C locale (the library must not care)
    envb = gen_enumeration(hs, rng, draws=1, faults=False)
    for label_, env_ in (("env:LANG=missing", {"LANG": "xx_XX.UTF-8", "LC_CTYPE": "yy_YY.ISO-8859-15"}), ("env:LC_ALL=C.UTF-8", {"LC_ALL": "C.UTF-8"})):
        execute(label_, hs.exe, chunked(envb, 270000, size=512), env=env_)
    # 3c. ambient floating-point state: the fault-free batch under each non-default rounding mode
    for mode in (1, 2, 3, 4):
        runs_ = [(280000 + mode * 3000 + rid, [{"mode": mode}] + ops_) for rid, ops_ in chunked(envb, 0, size=512)]
        execute("rounding-mode-%d" % mode if mode < 4 else "global-locale-numpunct", hs.exe, runs_)
    # 4a. endurance: the same call tens of thousands of times in one process
    endu = gen_endurance(hs, rng, thorough)
    execute("endurance", hs.exe, [(500000 + i, ops_) for i, ops_ in enumerate(endu)])
    # 4b. cold starts: one fresh process per plan, first call already under an allocation failure
    cold = gen_cold(hs, rng, int(os.environ.get("VERIF_C20_COLD", "8000" if thorough else "900")), alloc_counts)
    execute("cold-starts", hs.exe, [(600000 + i, ops_) for i, ops_ in enumerate(cold)], fresh=True)
    # 4c. two threads used one after the other; calls at static-destruction time (fresh process per plan)
    thr = gen_threads(hs, rng, int(os.environ.get("VERIF_C20_THREADS", "6000" if thorough else "500")))
    execute("two-threads", hs.exe, [(700000 + i, ops_) for i, ops_ in enumerate(thr)], fresh=True)
    axp = gen_at_exit(hs, rng, int(os.environ.get("VERIF_C20_ATEXIT", "6000" if thorough else "500")))
    execute("at-exit", hs.exe, [(800000 + i, ops_) for i, ops_ in enumerate(axp)], fresh=True)
    # 4d. true concurrency under ThreadSanitizer
    pairs = gen_pairs(ht, rng, thorough)
    execute("concurrent-pairs", ht.exe, chunked(pairs, 850000, size=256), build="tsan")
    # 5. uninitialised reads: plain build under memcheck, every instance once + the sweeps
    vg_ops = gen_enumeration(hp, rng, draws=(6 if thorough else 2), faults=False) + gen_sweeps(hp, cat)
    vg_ops += [o for o in gen_value_classes(hp, rng) if thorough or o["vc"] in (0, 2, 5, 9)]
    parsers = sorted(n for n in hp.ops if hp.ops[n] & 2)
    vg_ops += [op(n, rng.u64()) for n in parsers for _ in range(200 if thorough else 20)]
    if thorough:
        vg_ops += [o for r_ in gen_history(hp, rng, 2000) for o in r_ if "name" in o]
    if shutil.which("valgrind"):
        execute("memcheck", hp.exe, chunked(vg_ops, 900000, size=256), valgrind=True, build="plain-memcheck")
    else:
        log("  memcheck tier skipped: valgrind not found")
    if huge_thread is not None:
        huge_thread.join()
        hev, hst, hrs = huge_box["out"]
        killed = [e for e in hev if e["cls"] == "signal:SIGKILL"]
        if killed:
            # the kernel's out-of-memory killer (these processes hold 2-8 GiB each): says nothing about the library
            log("  note: %d huge-operand processes were killed (SIGKILL, presumably out of memory); not counted" % len(killed))
            hev = [e for e in hev if e["cls"] != "signal:SIGKILL"]
        execute("huge-operands", hs.exe, huge_runs, precomputed=(hev, hst, hrs))
        log("  (huge-operand batch: %d processes on %d cores alongside the other batches, %.0fs)" % (len(huge_runs), huge_jobs, huge_box["wall"]))
    evaluations = totals.get("execs", 0)

    # ---- violations
    infra = [e for (b, ops_, e) in all_events if e["kind"] in ("infra", "unknown-op")]
    attributable = [1 for (b, ops_, e) in all_events if e["kind"] not in ("infra", "unknown-op")]
    if infra and not attributable:
        log("INFRASTRUCTURE: %d worker problems; first: %s" % (len(infra), infra[0]))
        return 2
    if infra:
        # a worker that dies outside any op (typically heap corruption that the build it runs under cannot see, surfacing
        # at exit) proves nothing by itself; the attributable violations below are reported, these are only mentioned
        log("note: %d worker deaths could not be attributed to an op (first: %s)" % (len(infra), str(infra[0])[:300]))
    groups = {}
    for (b, ops_, e) in all_events:
        if ops_ is None or not (0 <= e["op"] < len(ops_)) or "name" not in ops_[e["op"]]:
            continue
        key = (e["cls"], family(ops_[e["op"]]["name"]))
        groups.setdefault(key, []).append((b, ops_, e))
    exit_code = 0
    known_lines, reported = [], []
    by_cls = {}
    for (cls, fam), items in groups.items():
        by_cls.setdefault(cls, []).append((fam, items))
    nviol = 0
    rep_n = 0
    ungated = []
    # classes that name their cause first; bare exit codes and signals (often secondary effects) last
    def cls_rank(c):
        return (1 if re.match(r"^(exit:|signal:|hang)", c) else 0, c)
    for cls in sorted(by_cls, key=cls_rank):
        fams = sorted(by_cls[cls], key=lambda x: (len(x[1][0][1]), x[0]))
        unknown = [(fam, items) for fam, items in fams if not known_match(cls, fam)]
        for fam, items in fams:
            k = known_match(cls, fam)
            if k:
                known_lines.append("KNOWN-FINDING: property=%s class=%s op=%s (%d occurrences)" % (PROP, cls, fam, len(items)))
        if not unknown:
            continue
        nviol += len(unknown)
        log("violation class %s: %d op families affected (e.g. %s)" % (cls, len(unknown), ", ".join(f for f, _ in unknown[:4])))
        if len(reported) >= 6:
            # a tree that corrupts memory in builds that cannot see it produces dozens of secondary classes: six minimised,
            # gated replays are enough to act on, the rest are listed above and counted
            continue
        for fam, items in unknown[:2]:      # minimise and report up to two families per class
            b, ops_, e = min(items, key=lambda it: it[2]["op"])
            valgrind = b == "plain-memcheck"
            exe = hp.exe if valgrind else (ht.exe if b == "tsan" else (hx.exe if b == "cond" else (hu.exe if b == "uchar" else (ho.exe if b == "opt" else hs.exe))))
            env_ = e.get("env")
            plan_ops, used = minimise(exe, ops_, e, valgrind, env=env_)
            name = ops_[e["op"]]["name"]
            e2 = reproduces(exe, plan_ops, cls, name, valgrind, env_)
            e3 = reproduces(exe, plan_ops, cls, name, valgrind, env_)
            if not e2 or not e3:
                # e.g. an unrelated op dying in a build that cannot see an earlier heap corruption: says nothing by itself
                ungated.append("%s in %s" % (cls, name))
                log("  (not reported: %s in %s did not reproduce in two fresh worker processes)" % (cls, name))
                continue
            if env_ is not None:
                e2["env"] = env_
            path = write_replay(seed, rep_n, b, plan_ops, e2, name)
            rep_n += 1
            log("  %s in %s fault=%s  (plan minimised to %d op(s) with %d re-executions)" % (cls, name, e2.get("fault"), len(plan_ops), used))
            if e2.get("detail"):
                log("    " + e2["detail"][-400:].replace("\n", "\n    "))
            reported.append("VIOLATION property=%s replay=%s" % (PROP, path))
            exit_code = 1
    for l in known_lines:
        log(l)
    for l in reported:
        log(l)
    if ungated and exit_code == 0:
        log("INFRASTRUCTURE: %d candidate violations did not reproduce in fresh worker processes and nothing else was found: %s" % (len(ungated), ungated[:3]))
        return 2
    wall = time.time() - t0
    fault_kinds = {"allocation_failure_single+persistent(E1 executions in which it fired)": totals.get("fired", 0) - totals.get("sink_refused", 0),
                   "sink_refused_bytes(E1 executions)": totals.get("sink_refused", 0),
                   "armed_but_not_fired": totals.get("not_fired", 0),
                   "bad_alloc_reached_caller": totals.get("bad_alloc", 0),
                   "silent_degradation(result differs, no exception; not a violation)": totals.get("silent", 0),
                   "terminate_with_bad_alloc_under_fault(not a violation)": totals.get("terminate_bad_alloc_under_fault", 0),
                   "spontaneous_bad_alloc(no fault armed)": totals.get("spontaneous", 0),
                   "after_faults_reruns(E2: same call fault-free once its faults stopped)": totals.get("after", 0),
                   "after_faults_result_or_allocation_count_differs_from_E0(counted, not a violation)": totals.get("after_diverged", 0),
                   "after_faults_bad_alloc(no fault armed)": totals.get("after_bad_alloc", 0)}
    sample_hist = hist[0][:6] if hist else []
    cov = {
        "evaluations": int(evaluations),
        "distinct_nontrivial": len(distinct),
        "rule": "one evaluation = one execution of one real library call (op instance = public member/free function x numeric type) "
                "with seeded finite operands. Each op runs warm-up, E0 (fault-free, allocations counted) and E1 per fault. "
                "distinct_nontrivial = distinct (op instance, fault kind, fault position) tuples whose fault position exists "
                "(allocation index < allocations the call makes; sink budget class x failure mode for stream ops)",
        "samples": [{"enumeration_op": enum_ops[0]}, {"sweep_op": sweep[0] if sweep else None}, {"history_plan_prefix": sample_hist}],
        "exhaustive": False,
        "single_fault_space_per_instance_exhaustive": True,
        "op_instances": len(hs.ops), "op_instances_memcheck_build": len(hp.ops),
        "public_members_seen": hs.gen.api.summary(), "members_skipped_unsupported": len(hs.gen.skipped),
        "ops_excluded_uncompilable_on_pinned_tree": len(hs.gen.excluded_hit), "ops_dropped_uncompilable_now": hs.dropped,
        "numeric_type_subset": "all classes x {float,double,long double}" if thorough else "all classes x double; seeded third of classes x float,long double; unit/enum/base/model ops x all",
        "simulated_runs": len(hist) + len(det_runs) * 2, "runs_per_hour": round((len(hist) + 1) / max(wall, 1) * 3600, 1),
        "executions_per_hour": round(evaluations / max(wall, 1) * 3600, 1),
        "simulated_time": "not applicable: no clock seam exists in the library; progress counted in operations",
        "faults_fired_by_kind": fault_kinds, "totals": {k: v for k, v in sorted(totals.items()) if "." not in k},
        "by_phase": {k: v for k, v in sorted(totals.items()) if "." in k and k.endswith(".execs")},
        "op_family_bigrams_in_histories": len(bigrams),
        "conditional_code": cond,
        "huge_operand_batch": {"worker_processes": len(huge_runs) if huge_jobs else 0, "ops": sum(len(r[1]) for r in huge_runs) if huge_jobs else 0,
                               "operand_bytes": [2 ** 31] + ([2 ** 32 + 5] if thorough else []), "cores": huge_jobs, "mem_available_gib": round(avail, 1)},
        "determinism_sample": {"plans": len(det_runs), "worker_assignments": [1, min(16, common.NCPU)], "identical": True},
        "violation_groups": len(groups), "known_findings_matched": len(known_lines),
        "components": {"real": ["all PhQ headers from /repo/include (working tree)", "libstdc++ (strings, streams, containers, stod family) in debug mode",
                                "ASan", "UBSan (all of -fsanitize=undefined except the null check)", "valgrind memcheck on a plain -O0 build compiled as C++20 (every other build is C++17)", "ThreadSanitizer on a third build (two real threads inside the library at once)",
                                "a sanitizer build with -funsigned-char (text-handling ops in quick, everything in thorough)",
                                "an optimised build (-O3, no sanitizer) with every operand behind a pad of its own alignment: crashes, exceptions and invalid enumerators only"],
                       "simulated": ["allocator's decision to fail (replaced global operator new)", "stream sink (std::streambuf with byte budget, 3 failure modes, preset state bits/flags, null buffer)"],
                       "absent_no_seam": ["clock", "network", "disk", "threads"]},
        "build_seconds": {"sanitizer": round(hs.build_s, 1), "plain": round(hp.build_s, 1), "optimised": round(ho.build_s, 1)},
        "repo": common.repo_state(),
    }
    common.write_evidence(PROP, tier, seed, "fault_enumeration", cov, wall, nviol,
                          ["finite inputs only: every operand handed to the library is finite; objects whose construction overflowed are rebuilt from modest values",
                           "with the caller's stream exception mask ON, std::ios_base::failure (and the simulated device's own exception) may propagate: that is the caller's request; std::terminate or any other exception is still a violation",
                           "global C++ locale, C locale and rounding mode are at their defaults except in the batches named for them (two locale environments, three rounding modes, one global numpunct locale)",
                           "std::tolower/toupper on negative char values is defined by glibc and not flagged by any tool here",
                           "concurrency: data races only (ThreadSanitizer on pairs of calls on two threads); nothing is claimed about results under concurrency",
                           "huge text operands (2^31 bytes and more) run only when at least 12 GiB of memory is available; a process killed by the kernel there is not counted",
                           "an allocating noexcept function that terminates under an injected failure is counted, not flagged"])
    log("C20 %s: executions=%d distinct(op,fault,pos)=%d violation groups=%d wall=%.0fs -> exit %d" % (tier, evaluations, len(distinct), len(groups), wall, exit_code))
    return exit_code
