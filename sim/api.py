"""Extracts the public API surface (constructors, methods, operators, free operator templates,
std::hash specialisations) of the class templates in include/PhQ from the current tree, using the
regular clang-formatted syntax of the headers.  What cannot be parsed or called generically is
skipped and *counted* (reported in the evidence); nothing here decides a verdict."""
import os, re
from .catalogue import _read, PHQ


def _match(text, i, open_c, close_c):
    depth = 0
    n = len(text)
    while i < n:
        c = text[i]
        if c == '"':
            i += 1
            while i < n and text[i] != '"':
                i += 2 if text[i] == "\\" else 1
        elif c == open_c:
            depth += 1
        elif c == close_c:
            depth -= 1
            if depth == 0:
                return i
        i += 1
    return -1


def _split_members(body):
    """split a class body into member declaration strings (function bodies removed), tagged with access"""
    out = []
    access = "private"
    i, n = 0, len(body)
    cur = []
    par = 0
    while i < n:
        c = body[i]
        if c == '"':
            j = i + 1
            while j < n and body[j] != '"':
                j += 2 if body[j] == "\\" else 1
            cur.append(body[i:j + 1]); i = j + 1; continue
        if c == "(":
            par += 1
        elif c == ")":
            par -= 1
        if par == 0 and c == "{":
            j = _match(body, i, "{", "}")
            text = "".join(cur).strip()
            # brace after '=' or directly after an identifier with no '(' => initialiser, not a body
            is_fn = ")" in text
            if is_fn:
                out.append((access, re.sub(r"\s+", " ", text), True))
                cur = []
                i = j + 1
                # swallow optional ';'
                k = i
                while k < n and body[k].isspace():
                    k += 1
                if k < n and body[k] == ";":
                    i = k + 1
                continue
            cur.append(body[i:j + 1]); i = j + 1; continue
        if par == 0 and c == ";":
            text = re.sub(r"\s+", " ", "".join(cur)).strip()
            if text:
                out.append((access, text, False))
            cur = []; i += 1; continue
        if par == 0 and c == ":" and body[i:i + 2] != "::" and (i == 0 or body[i - 1] != ":"):
            word = "".join(cur).strip()
            if word in ("public", "private", "protected"):
                access = word; cur = []; i += 1; continue
        cur.append(c); i += 1
    return out


def _split_params(s):
    out, cur, depth = [], [], 0
    for c in s:
        if c in "<([":
            depth += 1
        elif c in ">)]":
            depth -= 1
        if c == "," and depth == 0:
            out.append("".join(cur).strip()); cur = []
        else:
            cur.append(c)
    t = "".join(cur).strip()
    if t:
        out.append(t)
    return out


def _param_type(p):
    """'const Length<NumericType>& length' -> 'Length<NumericType>' ; returns (type, is_mutable_ref)"""
    p = re.sub(r"/\*.*?\*/", "", p).strip()
    p = re.sub(r"\s*=\s*[^,]+$", "", p)  # default argument
    m = re.match(r"^(const\s+)?(.+?)\s*(&&|&|\*)?\s*(?:const\s+)?(\w+)?$", p)
    if not m:
        return None, False
    const, typ, ref, name = m.group(1), m.group(2).strip(), m.group(3), m.group(4)
    if name is None or typ.endswith("::") or typ in ("const", "unsigned", "long"):
        # no parameter name: whole thing is the type
        m2 = re.match(r"^(const\s+)?(.+?)\s*(&&|&|\*)?$", p)
        const, typ, ref = m2.group(1), m2.group(2).strip(), m2.group(3)
    typ = re.sub(r"^const\s+", "", typ)
    if typ.endswith(" const"):
        typ = typ[:-6]
    return typ, (ref == "&" and not const) or ref == "*"


SPEC = r"(?:\[\[nodiscard\]\]|static|constexpr|inline|explicit|virtual|friend)"


def _parse_member(cls, text):
    """returns dict or None"""
    t = text
    tmpl = None
    m = re.match(r"^template\s*<([^>]*)>\s*(.*)$", t)
    if m:
        tmpl, t = m.group(1).strip(), m.group(2)
    specs = []
    while True:
        m = re.match(r"^(%s)\s+(.*)$" % SPEC, t)
        if not m:
            break
        specs.append(m.group(1)); t = m.group(2)
    if t.startswith("~") or t.startswith("static_assert") or t.startswith("using ") or t.startswith("class ") or \
            t.startswith("enum ") or t.startswith("struct ") or t.startswith("typedef"):
        return None
    if "= default" in t or "= delete" in t:
        return None
    lp = t.find("(")
    if lp < 0:
        return None
    rp = _match(t, lp, "(", ")")
    if rp < 0:
        return None
    head, params, tail = t[:lp].strip(), t[lp + 1:rp], t[rp + 1:]
    # constructor initialiser lists follow ':' in tail; drop them
    tail = tail.split(":")[0] if not tail.strip().startswith("const") or " : " in tail else tail
    is_const = bool(re.search(r"\bconst\b", tail))
    is_noexcept = "noexcept" in tail
    pure = bool(re.search(r"=\s*0", t[rp + 1:]))
    ps = []
    for p in _split_params(params):
        ty, mut = _param_type(p)
        ps.append({"type": ty, "mutable_ref": mut, "raw": p})
    if head == cls or re.match(r"^%s\s*<[^>]*>$" % re.escape(cls), head):
        return {"kind": "ctor", "name": cls, "params": ps, "template": tmpl, "specs": specs, "noexcept": is_noexcept}
    m = re.match(r"^(.*?)\s*\b(operator\s*(?:\(\)|\[\]|[^\s(]+)|\w+)$", head)
    if not m:
        return None
    ret, name = m.group(1).strip(), m.group(2).replace(" ", "")
    if not ret:
        return None
    return {"kind": "method", "name": name, "ret": ret, "params": ps, "const": is_const, "static": "static" in specs,
            "template": tmpl, "specs": specs, "noexcept": is_noexcept, "pure_virtual": pure, "virtual": "virtual" in specs}


class Api:
    def __init__(self):
        self.classes = {}     # name -> {header, base, template_default, members:[...], nested_in}
        self.free = []        # free operator templates: {name, params, ret, header}
        self.enum_functions = []   # free function templates over one enumeration type: {name, tparam, ret, params, header}
        self.functions = []   # free non-operator function templates: {name, ns, ret, params, constexpr, tparams, header}
        self.hashes = []      # class names with std::hash specialisation
        self.skipped = []     # (where, text, why)
        self._load()

    def _headers(self):
        hs = []
        for fn in sorted(os.listdir(PHQ)):
            if fn.endswith(".hpp"):
                hs.append(("PhQ/" + fn, os.path.join(PHQ, fn)))
        mdir = os.path.join(PHQ, "ConstitutiveModel")
        if os.path.isdir(mdir):
            for fn in sorted(os.listdir(mdir)):
                if fn.endswith(".hpp"):
                    hs.append(("PhQ/ConstitutiveModel/" + fn, os.path.join(mdir, fn)))
        ddir = os.path.join(PHQ, "Dimension")
        if os.path.isdir(ddir):
            for fn in sorted(os.listdir(ddir)):
                if fn.endswith(".hpp"):
                    hs.append(("PhQ/Dimension/" + fn, os.path.join(ddir, fn)))
        return hs

    def _load(self):
        for inc, path in self._headers():
            text = _read(path)
            self._classes(inc, text)
            self._free(inc, text)
            self._functions(inc, text)
            self._enum_functions(inc, text)
            for m in re.finditer(r"struct\s+hash<\s*PhQ::([\w:]+)(?:<\s*NumericType\s*>)?\s*>", text):
                self.hashes.append(m.group(1))

    def _classes(self, inc, text):
        # class templates and plain classes defined at namespace scope (with a body)
        for m in re.finditer(r"(template\s*<([^>]*)>\s*)?class\s+([\w:]+)\s*(?:final\s*)?(?::\s*public\s+([^{;]+?))?\s*\{", text):
            name = m.group(3)
            start = m.end() - 1
            end = _match(text, start, "{", "}")
            if end < 0:
                continue
            # skip nested/forward matches inside another class body we already recorded
            body = text[start + 1:end]
            tparams = (m.group(2) or "").strip()
            short = name.split("::")[-1]
            members = []
            for access, decl, has_body in _split_members(body):
                if access != "public":
                    continue
                try:
                    mem = _parse_member(short, decl)
                except Exception as e:  # parsing is best-effort by design
                    mem = None
                    self.skipped.append((name, decl[:120], "parse error %s" % e))
                if mem:
                    mem["decl"] = decl
                    members.append(mem)
            if name in self.classes and len(self.classes[name]["members"]) >= len(members):
                continue
            self.classes[name] = {"header": inc, "base": (m.group(4) or "").strip(), "tparams": tparams, "members": members}

    def _free(self, inc, text):
        # free operator templates:  template <typename NumericType> inline constexpr RET operator X(params)
        for m in re.finditer(r"template\s*<\s*typename\s+NumericType\s*>\s*((?:\[\[nodiscard\]\]\s*)?(?:inline\s+|constexpr\s+|static\s+)*)"
                             r"([\w:<>&\s,]+?)\s+(operator\s*[^\s(]+)\s*\(", text):
            lp = m.end() - 1
            rp = _match(text, lp, "(", ")")
            params = re.sub(r"\s+", " ", text[lp + 1:rp])
            ps = []
            for p in _split_params(params):
                ty, mut = _param_type(p)
                ps.append({"type": ty, "mutable_ref": mut, "raw": p})
            ret = re.sub(r"\s+", " ", m.group(2)).strip()
            name = m.group(3).replace(" ", "")
            if ret.endswith("::") or ret.endswith(":: "):
                continue
            # out-of-class member operator definitions look like  RET Class<NumericType>::operator*(...)
            before = text[m.start(3) - 2:m.start(3)]
            if before == "::":
                continue
            self.free.append({"name": name, "ret": ret, "params": ps, "header": inc})

    @staticmethod
    def _namespace_path(text, pos):
        """names of the namespaces enclosing text[pos] ("" for an unnamed one), or None when pos is inside a class or function body"""
        stack = []
        i = 0
        while i < pos:
            c = text[i]
            if c == '"':
                i += 1
                while i < pos and text[i] != '"':
                    i += 2 if text[i] == "\\" else 1
            elif c == "{":
                head = text[max(0, i - 80):i]
                m = re.search(r"namespace(?:\s+([\w:]+))?\s*$", head)
                stack.append((m.group(1) or "") if m else None)
            elif c == "}":
                if stack:
                    stack.pop()
            i += 1
        if any(x is None for x in stack):
            return None
        return [part for x in stack for part in (x.split("::") if x else [""])]

    @classmethod
    def _at_namespace_scope(cls, text, pos):
        return cls._namespace_path(text, pos) is not None

    def _functions(self, inc, text):
        """free, non-operator function templates over NumericType at namespace scope (in the pinned tree: the std:: math
        overloads for dimensionless scalars); out-of-class member definitions (qualified names) are not these"""
        std_spans = []
        for m in re.finditer(r"namespace\s+std\s*\{", text):
            end = _match(text, m.end() - 1, "{", "}")
            std_spans.append((m.start(), end if end > 0 else len(text)))
        for m in re.finditer(r"\n(template\s*<\s*typename\s+NumericType\s*(?:,\s*typename\s+OtherNumericType\s*)?>\s*)((?:\[\[nodiscard\]\]\s*)?(?:inline\s+|constexpr\s+|static\s+)*)"
                             r"([\w:<>&\s,]+?)\s+(\w+)\s*\(", text):
            name = m.group(4)
            ret = re.sub(r"\s+", " ", m.group(3)).strip()
            if name == "operator" or ret.endswith("::") or ret.endswith(":") or ret in ("class", "struct"):
                continue
            lp = m.end() - 1
            rp = _match(text, lp, "(", ")")
            if rp < 0:
                continue
            after = text[rp + 1:rp + 40]
            if not re.match(r"\s*(?:const\s*)?(?:noexcept\s*)?\{", after):
                continue   # declaration only, or a member definition with trailing qualifiers we do not model
            # inside a class or function body?  (member templates are handled with their class)
            path = self._namespace_path(text, m.start())
            if path is None:
                continue
            if any(part == "" or part.lower() in ("internal", "detail", "details", "impl") for part in path):
                continue   # implementation namespaces are not public API (their callers are)
            if path not in (["PhQ"], ["std"]):
                self.skipped.append((inc, name, "free function template in namespace %s: not modelled" % "::".join(path)))
                continue
            ps = []
            for p in _split_params(re.sub(r"\s+", " ", text[lp + 1:rp])):
                ty, mut = _param_type(p)
                ps.append({"type": ty, "mutable_ref": mut, "raw": p})
            ns = path[0]
            self.functions.append({"name": name, "ns": ns, "ret": ret, "params": ps, "constexpr": "constexpr" in m.group(2),
                                   "two_types": "OtherNumericType" in m.group(1), "header": inc})

    # free function templates over a single enumeration type (template <typename Unit> / <typename Enumeration>) that the
    # hand-written unit/enumeration ops of the harness already call
    HAND_COVERED_ENUM_FUNCTIONS = ("Abbreviation", "ParseEnumeration", "ConsistentUnit", "RelatedUnitSystem")

    def _enum_functions(self, inc, text):
        """free, non-operator function templates over ONE enumeration type at PhQ namespace scope (stream manipulators,
        per-unit-type helpers ...); the template argument is always written explicitly by the harness"""
        for m in re.finditer(r"\n(template\s*<\s*typename\s+(Unit|UnitType|Enumeration)\s*>\s*)((?:\[\[nodiscard\]\]\s*)?(?:inline\s+|constexpr\s+|static\s+)*)"
                             r"([\w:<>&\s,]+?)\s+(\w+)\s*\(", text):
            name = m.group(5)
            ret = re.sub(r"\s+", " ", m.group(4)).strip()
            if name == "operator" or name in self.HAND_COVERED_ENUM_FUNCTIONS or ret.endswith(":") or ret in ("class", "struct", "const"):
                continue
            lp = m.end() - 1
            rp = _match(text, lp, "(", ")")
            if rp < 0:
                continue
            if not re.match(r"\s*(?:noexcept\s*)?\{", text[rp + 1:rp + 40]):
                continue
            path = self._namespace_path(text, m.start())
            if path != ["PhQ"]:
                continue
            ps = []
            for p in _split_params(re.sub(r"\s+", " ", text[lp + 1:rp])):
                ty, mut = _param_type(p)
                ps.append({"type": ty, "mutable_ref": mut, "raw": p})
            self.enum_functions.append({"name": name, "tparam": m.group(2), "ret": ret, "params": ps, "header": inc})

    def summary(self):
        n = sum(len(c["members"]) for c in self.classes.values())
        return {"classes": len(self.classes), "public_members": n, "free_operator_templates": len(self.free),
                "free_function_templates": len(self.functions), "enum_function_templates": len(self.enum_functions), "hash_specialisations": len(self.hashes)}


if __name__ == "__main__":
    import json, sys
    a = Api()
    print(json.dumps(a.summary()))
    which = sys.argv[1] if len(sys.argv) > 1 else "Time"
    c = a.classes.get(which)
    if c:
        print(c["header"], c["base"], c["tparams"])
        for mem in c["members"]:
            if mem["kind"] == "ctor":
                print("  ctor", [p["type"] for p in mem["params"]], "tmpl=", mem["template"])
            else:
                print("  ", "static" if mem["static"] else "", mem["ret"], mem["name"], [p["type"] for p in mem["params"]],
                      "const" if mem["const"] else "", "tmpl=%s" % mem["template"] if mem["template"] else "")
    print([f for f in a.free if any(which + "<" in (p["type"] or "") for p in f["params"])][:12])
    print(len(a.skipped), a.skipped[:5])
