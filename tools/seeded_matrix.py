#!/usr/bin/env python3
"""Runs the quick check of the relevant property against every seeded change, on a scratch worktree
(never on /repo itself), and writes seeded/MATRIX.json.  Usage: tools/seeded_matrix.py [id ...]"""
import json, os, subprocess, sys, time, tempfile, shutil
VERIF = os.path.dirname(os.path.dirname(os.path.abspath(__file__)))
WT = "/var/tmp/phq-seeded-wt"


def sh(cmd, **kw):
    return subprocess.run(cmd, shell=True, stdout=subprocess.PIPE, stderr=subprocess.STDOUT, text=True, **kw)


def main(ids):
    sh("git -C /repo worktree remove --force %s" % WT)
    r = sh("git -C /repo worktree add --detach %s HEAD" % WT)
    if r.returncode:
        print(r.stdout); return 2
    scratch = tempfile.mkdtemp(prefix="phq-matrix.", dir="/var/tmp")
    env = dict(os.environ, VERIF_REPO=WT, VERIF_EVIDENCE_DIR=os.path.join(scratch, "ev"), VERIF_REPLAY_DIR=os.path.join(scratch, "rp"))
    out = {}
    mpath = os.path.join(VERIF, "seeded", "MATRIX.json")
    if os.path.exists(mpath) and ids:
        out = json.load(open(mpath))
    names = ids or sorted(d for d in os.listdir(os.path.join(VERIF, "seeded")) if os.path.isdir(os.path.join(VERIF, "seeded", d)))
    names = ["(unchanged tree)/C19", "(unchanged tree)/C20"] + names if not ids else names
    for name in names:
        props = None
        if name.startswith("(unchanged"):
            prop, patch = name.split("/")[1], None
        else:
            meta = json.load(open(os.path.join(VERIF, "seeded", name, "meta.json")))
            prop, patch = meta["property"], os.path.join(VERIF, "seeded", name, "patch.diff")
            if not prop.startswith("C"):
                props = ["C19", "C20"]      # benign changes: both checks must stay quiet
        sh("git -C %s checkout -- ." % WT)
        if patch:
            a = sh("git -C %s apply %s" % (WT, patch))
            if a.returncode:
                out[name] = {"error": "patch does not apply: " + a.stdout[-300:]}
                continue
        t = time.time()
        res = {}
        for pr in (props or [prop]):
            r = subprocess.run([os.path.join(VERIF, "check"), pr, "--tier", "quick"], cwd=VERIF, env=env, stdout=subprocess.PIPE, stderr=subprocess.STDOUT, text=True)
            lines = r.stdout.splitlines()
            classes = [l.strip()[len("violation class "):].split(": ")[0] for l in lines if l.startswith("violation class")]
            res[pr] = {"exit": r.returncode, "violation_lines": sum(1 for l in lines if l.startswith("VIOLATION ")),
                       "known_finding_lines": sum(1 for l in lines if l.startswith("KNOWN-FINDING")), "classes": classes[:8]}
        if props:
            out[name] = {"expect": "no alarm", "checks": res, "wall_s": round(time.time() - t)}
        else:
            out[name] = dict(res[prop], property=prop, wall_s=round(time.time() - t))
        print(name, out[name], flush=True)
        json.dump(out, open(mpath, "w"), indent=1, sort_keys=True)
    sh("git -C %s checkout -- ." % WT)
    sh("git -C /repo worktree remove --force %s" % WT)
    shutil.rmtree(scratch, ignore_errors=True)
    return 0


if __name__ == "__main__":
    sys.exit(main(sys.argv[1:]))
