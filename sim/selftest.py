"""./check selftest-determinism — proves, on a large sample, that one seed is one execution.

C20: for many VERIF_SEED values, the same plans (histories, cold starts, enumeration sample) are
executed twice — once in a single worker in order, once spread over 16 workers in reversed order —
and the per-op (allocation count, result hash) maps and the event lists must be identical.
C19: a sample of programs is built and run in two independent scratch toolchains (two full
rebuilds) and the per-probe outcome vectors and table-initialisation masks must be identical.
Exit 0 = identical everywhere, exit 2 = a divergence (printed)."""
import json, os, time
from . import common, c19, c20
from .common import Rng, log
from .catalogue import Catalogue


def c20_part(nseeds):
    root = common.scratch("st20")
    probe = c20.HarnessGen(Catalogue())
    sub = c20.quick_subset(probe.class_list(), 1)
    h = c20.Harness(os.path.join(root, "san"), c20.SAN_FLAGS, subset=sub, label="san", ntus=common.NCPU)
    err = h.build()
    if err:
        log("selftest: cannot build the C20 harness: " + err)
        return 2
    total_ops = 0
    for seed in range(1, nseeds + 1):
        rng = Rng(common.run_seed(seed, 0))
        runs = [(i, ops) for i, ops in enumerate(c20.gen_history(h, rng, 40))]
        sample = rng.sample(sorted(h.ops), 300)
        runs += c20.chunked([c20.op(n, rng.u64(), fault="alloceach") for n in sample], 1000)
        runs += c20.chunked([c20.op(n, rng.u64(), vc=rng.below(40)) for n in sample], 2000)
        ev1, st1, r1 = c20.run_parallel(h.exe, runs, jobs=1)
        ev2, st2, r2 = c20.run_parallel(h.exe, list(reversed(runs)), jobs=16)
        ev3, st3, r3 = c20.run_parallel(h.exe, runs, jobs=5)
        s1 = sorted((e["run"], e["op"], e["cls"], e.get("fault", "")) for e in ev1)
        s2 = sorted((e["run"], e["op"], e["cls"], e.get("fault", "")) for e in ev2)
        s3 = sorted((e["run"], e["op"], e["cls"], e.get("fault", "")) for e in ev3)
        if r1 != r2 or r1 != r3 or s1 != s2 or s1 != s3:
            bad = [k for k in r1 if r1.get(k) != r2.get(k) or r1.get(k) != r3.get(k)][:5]
            log("selftest C20: DIVERGENCE at seed %d: %s" % (seed, bad))
            return 2
        # cold starts: each plan twice in fresh processes
        cold = [(10000 + i, ops) for i, ops in enumerate(c20.gen_cold(h, rng, 32))]
        c1 = c20.run_fresh(h.exe, cold, jobs=4)
        c2 = c20.run_fresh(h.exe, list(reversed(cold)), jobs=16)
        if c1[2] != c2[2]:
            log("selftest C20: DIVERGENCE in cold starts at seed %d" % seed)
            return 2
        total_ops += len(r1) + len(c1[2])
    log("selftest C20: %d seeds x (1, 5, 16 workers; reversed order) identical: %d op results compared" % (nseeds, total_ops))
    return 0


def c19_part(nprograms):
    cat = Catalogue()
    progs = [c19.seeded_program(cat, Rng(common.run_seed(7, i)), i, max_probes=12) for i in range(nprograms)]
    outs = []
    for rep in range(2):
        tc = c19.Toolchain(common.scratch("st19"))
        src, labels = c19.observer_source(cat, "gcc")
        tc.observer_src = src
        jobs = []
        for pi, p in enumerate(progs):
            orders = c19.link_orders(p, Rng(common.run_seed(7, 100 + pi)), 3)
            for cfg in c19.CONFIGS_QUICK:
                for o in orders:
                    jobs.append((pi, {"cfg": cfg, "packaging": "objects", "order": o, "observer": True}))
        res = common.pmap(lambda j: c19.build_and_run(tc, progs[j[0]], j[1]), jobs, 16 if rep == 0 else 7)
        if any(r["infra"] and "cannot" not in r["infra"] for r in res if r["infra"]):
            bad = [r["infra"] for r in res if r["infra"]][0]
            if "error" in bad and "required from" in bad:
                log("selftest C19: a sampled program does not compile on this tree (library compile-time defect); skipped")
                return 0
            log("selftest C19: infrastructure problem: " + bad[:500])
            return 2
        outs.append([(r.get("outcome"), sorted(r.get("masks", {}).items()), [(f["probe"], f["class"]) for f in r["failures"]]) for r in res])
    if outs[0] != outs[1]:
        idx = [i for i in range(len(outs[0])) if outs[0][i] != outs[1][i]][:3]
        log("selftest C19: DIVERGENCE between two independent rebuilds at schedules %s" % idx)
        return 2
    log("selftest C19: %d programs x %d schedules rebuilt twice: identical outcomes and initialisation masks" % (nprograms, len(outs[0])))
    return 0


def determinism():
    t0 = time.time()
    n20 = int(os.environ.get("VERIF_SELFTEST_SEEDS", "40"))
    rc = c20_part(n20)
    if rc:
        return rc
    rc = c19_part(int(os.environ.get("VERIF_SELFTEST_PROGRAMS", "8")))
    log("selftest-determinism: %s in %.0fs" % ("ok" if rc == 0 else "FAILED", time.time() - t0))
    return rc
