// Run-time support for the generated C20 harness (allocation-failure and stream-sink fault
// injection around real PhQ calls).  The generated translation units include this header after the
// PhQ headers; c20_rt.cpp owns the replaced global operator new/delete and the worker loop.
#pragma once
#include <array>
#include <cmath>
#include <cstdint>
#include <cstdio>
#include <cstring>
#include <limits>
#include <memory>
#include <optional>
#include <ostream>
#include <stdexcept>
#include <streambuf>
#include <string>
#include <string_view>
#include <sys/mman.h>
#include <type_traits>
#include <utility>
#include <vector>

namespace vrt {

// ---------------------------------------------------------------------------------- fault state
struct AllocState {
  bool counting = false;      // true only between an op's begin and end marks
  long count = 0;             // allocations seen while counting
  long fail_at = -1;          // index of the allocation that fails (-1: none)
  long fail_at2 = -1;         // a second, later index that fails too (pairs of failures)
  long fail_at3 = -1;         // and a third (triples)
  bool fail_from = false;     // if set, every allocation with index >= fail_at fails
  long fired = 0;             // how many allocations were made to fail
};
extern AllocState g_alloc;
extern bool g_armed;  // set by the executor for counted executions (E0/E1), clear for warm-up

// Counting (and therefore failing) is enabled only while a library call is in progress, so that
// injected faults land in PhQ / libstdc++ code and never in the harness's own operand set-up.
#ifdef VRT_CONCURRENT
// concurrent (ThreadSanitizer) build: no fault injection, and the harness itself must not share mutable state
struct Count { Count() {} ~Count() {} Count(const Count&) = delete; Count& operator=(const Count&) = delete; };
struct Pause { Pause() {} ~Pause() {} Pause(const Pause&) = delete; Pause& operator=(const Pause&) = delete; };
#else
struct Count {
  Count() { g_alloc.counting = g_armed; }
  ~Count() { g_alloc.counting = false; }
  Count(const Count&) = delete;
  Count& operator=(const Count&) = delete;
};
struct Pause {  // used by simulated devices (the stream sink) that are called from inside library calls
  bool prev;
  Pause() : prev(g_alloc.counting) { g_alloc.counting = false; }
  ~Pause() { g_alloc.counting = prev; }
  Pause(const Pause&) = delete;
  Pause& operator=(const Pause&) = delete;
};
#endif

// ---------------------------------------------------------------------------------- stream sink
// A std::streambuf with a byte budget: accepts `budget` bytes and then fails in one of three
// ways.  It is the library's only I/O seam (operator<< on a caller-supplied std::ostream).
struct SinkError : std::runtime_error {   // what the simulated device throws in kThrow mode
  SinkError() : std::runtime_error("sink: simulated write error") {}
};

class FaultBuf : public std::streambuf {
public:
  enum Mode { kEof = 0, kShort = 1, kThrow = 2 };
  long budget = -1;  // -1: unlimited
  int mode = kEof;
  long refused = 0;  // times the sink refused bytes (fault fired)
  std::string accepted;

protected:
  int_type overflow(int_type ch) override {
    Pause pause;
    if (traits_type::eq_int_type(ch, traits_type::eof())) return traits_type::not_eof(ch);
    if (budget >= 0 && static_cast<long>(accepted.size()) >= budget) {
      ++refused;
      if (mode == kThrow) throw SinkError();
      return traits_type::eof();
    }
    accepted.push_back(traits_type::to_char_type(ch));
    return ch;
  }
  std::streamsize xsputn(const char* s, std::streamsize n) override {
    Pause pause;
    if (budget < 0) {
      accepted.append(s, static_cast<size_t>(n));
      return n;
    }
    std::streamsize room = budget - static_cast<std::streamsize>(accepted.size());
    if (room < 0) room = 0;
    if (n <= room) {
      accepted.append(s, static_cast<size_t>(n));
      return n;
    }
    accepted.append(s, static_cast<size_t>(room));
    ++refused;
    if (mode == kThrow) throw SinkError();
    return room;  // short write (kShort) or nothing more accepted (kEof)
  }
};

struct StreamSlot {
  FaultBuf buf;
  std::ostream os;
  bool null_buf = false;
  StreamSlot() : os(&buf) {}
};
constexpr int kStreamSlots = 4;

// sizes harvested from integer literals in the library's headers (defined by the generated harness)
extern const long kInterestingSizes[];
extern const int kNInterestingSizes;

// ---------------------------------------------------------------------------------- context
inline std::uint64_t splitmix(std::uint64_t& s) {
  s += 0x9E3779B97F4A7C15ULL;
  std::uint64_t z = s;
  z = (z ^ (z >> 30)) * 0xBF58476D1CE4E5B9ULL;
  z = (z ^ (z >> 27)) * 0x94D049BB133111EBULL;
  return z ^ (z >> 31);
}

struct Ctx {
  std::uint64_t seed = 0;
  std::uint64_t state = 0;
  bool small_sizes = false;   // endurance mode: containers and strings stay small (the call is repeated tens of thousands of times)
  bool correlated = false;    // operands of equal type are copies (or negations) of each other in this execution
  std::uint64_t exec_id = 0;  // unique per execution (warm/E0/E1 ...), used to scope the correlated-operand memo
  int vclass = -1;            // >=0: every number drawn in this op comes from that one special class (uniform operands)
  int huge = 0;               // >0: every std::string_view operand is the huge view number `huge` (2^31 or 2^32+5 bytes)
  bool huge_strings = false;  // ... and std::string operands made by arbitrary_bytes() are copies of it
  long forced[2] = {-1, -1};  // explicit selectors (enumerator / literal index) for exhaustive sweeps
  int forced_used = 0;
  std::ostream* os = nullptr;  // stream for this execution (scratch or a slot)
  std::uint64_t h = 1469598103934665603ULL;  // FNV-1a of the canonical result bytes
  long result_len = 0;
  bool invalid_enum = false;
  const char* invalid_enum_what = nullptr;
  bool nonfinite_result = false;
  std::string text;  // last textual result (kept small)
  std::string sv_store[4];  // backing storage for std::string_view operands
  std::unique_ptr<char[]> sv_buf[4];  // exact-sized, deliberately unaligned buffers for string_view operands
  int sv_used = 0;

  void reset(std::uint64_t sd, long p0, long p1, std::ostream* o) {
    seed = sd; state = sd; forced[0] = p0; forced[1] = p1; forced_used = 0; os = o;
    h = 1469598103934665603ULL; result_len = 0; invalid_enum = false; invalid_enum_what = nullptr;
    nonfinite_result = false; text.clear(); sv_used = 0;
    static thread_local std::uint64_t counter = 0;
    exec_id = ++counter;
    correlated = vclass < 0 && ((sd >> 40) & 3) == 0;
  }
  std::uint64_t next() { return splitmix(state); }
  std::uint64_t below(std::uint64_t n) { return n ? next() % n : 0; }
  // selector: forced value first (exhaustive sweeps), else seeded
  std::uint64_t select(std::uint64_t n) {
    if (forced_used < 2 && forced[forced_used] >= 0) return static_cast<std::uint64_t>(forced[forced_used++]) % (n ? n : 1);
    if (forced_used < 2) ++forced_used;
    return below(n);
  }
  void bytes(const void* p, size_t n) {
    const unsigned char* b = static_cast<const unsigned char*>(p);
    for (size_t i = 0; i < n; ++i) { h ^= b[i]; h *= 1099511628211ULL; }
    result_len += static_cast<long>(n);
  }
};

// ---------------------------------------------------------------------------------- finite values
constexpr int kValueClasses = 40;
template <class T>
inline T finite_value(Ctx& c) {
  using L = std::numeric_limits<T>;
  std::uint64_t r = c.next();
  std::uint64_t k = c.vclass >= 0 ? static_cast<std::uint64_t>(c.vclass) % kValueClasses : r % (kValueClasses + 24);
  switch (k) {
    case 0: return static_cast<T>(0);
    case 1: return -static_cast<T>(0);
    case 2: return static_cast<T>(1);
    case 3: return static_cast<T>(-1);
    case 4: return L::denorm_min();
    case 5: return L::max();
    case 6: return L::lowest();
    case 7: return L::min();
    case 8: return L::epsilon();
    case 9: return static_cast<T>(0.5);          // Poisson ratio at which 1 - 2 nu vanishes
    case 10: return static_cast<T>(-0.5);
    case 11: return static_cast<T>(2);
    case 12: return static_cast<T>(0.25);
    case 13: return static_cast<T>(1) / static_cast<T>(3);
    case 14: return static_cast<T>(273.15);      // temperature offsets
    case 15: return static_cast<T>(-273.15);
    case 16: return static_cast<T>(459.67);
    case 17: return static_cast<T>(-459.67);
    case 18: return static_cast<T>(32);
    case 19: return static_cast<T>(3.14159265358979323846264338327950288L);
    case 20: return static_cast<T>(180);
    case 21: return static_cast<T>(90);
    case 22: return static_cast<T>(1000);
    case 23: return static_cast<T>(0.001);
    case 24: return std::sqrt(L::max());         // squares stay finite, sums of squares overflow
    case 25: return std::sqrt(L::min());         // squares underflow
    case 26: return static_cast<T>(10000);       // PhQ::Print branch edges
    case 27: return static_cast<T>(0.1);
    case 28: return static_cast<T>(0.01);
    case 29: return static_cast<T>(100);
    case 30: return static_cast<T>(10);
    case 31: return static_cast<T>(-2);
    case 32: return static_cast<T>(1) - L::epsilon();
    case 33: return static_cast<T>(1) + L::epsilon();
    case 34: return static_cast<T>(static_cast<int>((r >> 8) % 2001) - 1000);
    case 35: return static_cast<T>(std::ldexp(static_cast<T>(1), static_cast<int>((r >> 8) % 200) - 100));
    case 36: return -static_cast<T>(std::ldexp(static_cast<T>(1.5), static_cast<int>((r >> 8) % 60) - 30));
    case 37: {  // any finite magnitude of the type
      int e = static_cast<int>((r >> 8) % static_cast<unsigned>(L::max_exponent - L::min_exponent)) + L::min_exponent;
      T m = static_cast<T>(1) + static_cast<T>((r >> 24) & 0xFFFFFF) / static_cast<T>(0x1000000);
      T v = std::ldexp(m, e - 1);
      return (r >> 60) & 1 ? -v : v;
    }
    case 38: return static_cast<T>(0.001) * static_cast<T>(1 + (r >> 8) % 999);
    case 39: return static_cast<T>(std::pow(static_cast<T>(10), static_cast<int>((r >> 8) % 9) - 4)) - L::epsilon();
    default: {
      T u = static_cast<T>((r >> 11) & 0xFFFFFFFFFFULL) / static_cast<T>(0xFFFFFFFFFFULL);  // [0,1]
      T scale = static_cast<T>(std::pow(static_cast<T>(10), static_cast<int>((r >> 4) % 7) - 2));
      return (u * 2 - 1) * scale;
    }
  }
}
template <class T>
inline T modest_value(Ctx& c) {  // |v| in [1e-3, 1e3]: conversions cannot overflow these
  std::uint64_t r = c.next();
  T u = static_cast<T>(1 + (r >> 11) % 999999) / static_cast<T>(1000);
  return (r & 1) ? -u : u;
}

// ---------------------------------------------------------------------------------- byte strings
template <class T> T finite_value(Ctx& c);
inline constexpr const char* kNumberGrammar[] = {
    "0", "-0", "+0", "1", "-1", "1.5", "-2.25", "1e10", "1E-10", "1e999", "-1e999", "1e-999", "-1e-999", "1e39", "1e-46",
    "3.4028235e38", "3.4028236e38", "1.7976931348623157e308", "1.7976931348623159e308", "1.18973149535723176502e+4932",
    "1.2e+4932", "4.9e-324", "2e-324", "nan", "NaN", "-nan", "nan(123)", "inf", "-inf", "infinity", "INF", "0x1p3", "0x1.8p-2",
    "0x", "0xg", "1e", "1e+", "1e-", "e5", ".", "+", "-", "", " ", " 12", "12 ", "\t3", "\n4", "1,5", "1.2.3", "--1", "+-1", "1_000",
    "1e5x", "12abc", "abc", ".5", "5.", "-.5e-3", "00012", "1e0000000000000000000000001", "9999999999999999999999999999999999999999",
    "0.000000000000000000000000000000000000000000000000000000000000000000000000000001", "1e2147483648", "1e-2147483649", "1d5",
    "١٢٣", "１２", "1\xC2\xA0", "1 2", "(1)", "1f", "1L", "0b101", "0o7", "TRUE", "null"};
inline constexpr int kNumberGrammarSize = static_cast<int>(sizeof(kNumberGrammar) / sizeof(kNumberGrammar[0]));

// Huge text operands: a view of 2^31 bytes (INT_MAX + 1) or 2^32 + 5 bytes (UINT_MAX + 6) over a sparse anonymous
// mapping (untouched pages read as NUL and cost no memory; a few bytes of text at both ends).  A size kept in an
// int or a 32-bit unsigned somewhere inside the library shows up as std::length_error, a short buffer or a wild index.
inline std::string_view huge_view(int which) {
  static char* base = nullptr;
  constexpr size_t kMax = (static_cast<size_t>(1) << 32) + 5;
  if (base == nullptr) {
    void* p = ::mmap(nullptr, kMax + 8192, PROT_READ | PROT_WRITE, MAP_PRIVATE | MAP_ANONYMOUS | MAP_NORESERVE, -1, 0);
    if (p == MAP_FAILED) throw std::bad_alloc();
    base = static_cast<char*>(p);
    static const char head[] = "Metre Per Second  12.5e3 kg\xC2\xB7m/s^2 AbC";
    std::memcpy(base + 1, head, sizeof head - 1);
  }
  const size_t n = which == 1 ? (static_cast<size_t>(1) << 31) : kMax;
  std::memcpy(base + 1 + n - 4, "XyZ9", 4);
  return std::string_view(base + 1, n);
}

inline std::string arbitrary_bytes(Ctx& c) {
  if (c.huge > 0 && c.huge_strings) return std::string(huge_view(c.huge));
  static const int lens[] = {0, 1, 1, 2, 3, 4, 5, 8, 15, 16, 17, 31, 64, 200, 255, 256, 257, 1000, 5000};
  size_t n = static_cast<size_t>(lens[c.below((c.small_sizes || c.below(8)) ? 14 : 19)]);
  if (!c.small_sizes && c.below(24) == 0 && kNInterestingSizes > 0) {
    long k = kInterestingSizes[c.below(static_cast<std::uint64_t>(kNInterestingSizes))];
    if (k <= 70000) n = static_cast<size_t>(k);
  }
  std::string s;
  std::uint64_t style = c.below(4);
  for (size_t i = 0; i < n; ++i) {
    std::uint64_t r = c.next();
    unsigned char b;
    if (style == 0) b = static_cast<unsigned char>(r & 0xFF);               // anything, incl. NUL and >127
    else if (style == 1) b = static_cast<unsigned char>(32 + r % 95);       // printable ASCII
    else if (style == 2) b = static_cast<unsigned char>(128 + r % 128);     // non-ASCII only
    else b = (r % 5 == 0) ? 0 : static_cast<unsigned char>("0123456789.eE+-xXpPnaifNAIF _\t"[r % 31]);
    s.push_back(static_cast<char>(b));
  }
  return s;
}

// UTF-8 sequences that occur in (or are confusable with) the spellings of unit tables
inline constexpr const char* kTokens[] = {"\xC2\xB5" /* micro sign */, "\xCE\xBC" /* greek mu */, "\xC2\xB0" /* degree */, "\xC2\xB7" /* middle dot */,
                                      "\xC2\xB2", "\xC2\xB3", "\xE2\x8B\x85" /* dot operator */, "\xCE\xA9" /* ohm */, "\xE2\x84\xA6", "\xE2\x84\x83",
                                      "\xC2\xA0", "\xEF\xBB\xBF", "\xE2\x81\xBB\xC2\xB9", "^", "/", "*", "-", "(", ")", "e", "E", "s", "S"};
inline constexpr int kNTokens = static_cast<int>(sizeof(kTokens) / sizeof(kTokens[0]));

inline void replace_all(std::string& s, const std::string& a, const std::string& b) {
  for (size_t pos = 0; (pos = s.find(a, pos)) != std::string::npos; pos += b.size()) s.replace(pos, a.size(), b);
}

inline std::string mutate(Ctx& c, const std::string& in) {
  std::string s = in;
  // structure-aware pass (half of the time): swap look-alike multi-byte characters, then maybe leave a
  // multi-byte sequence incomplete at the end or the beginning
  if (c.below(2)) {
    switch (c.below(5)) {
      case 0: replace_all(s, "\xCE\xBC", "\xC2\xB5"); break;
      case 1: replace_all(s, "\xC2\xB7", "\xE2\x8B\x85"); break;
      case 2: replace_all(s, "\xC2\xB0", "\xC2\xBA"); break;
      case 3: s.insert(c.below(s.size() + 1), kTokens[c.below(static_cast<std::uint64_t>(kNTokens))]); break;
      default: if (!s.empty()) { size_t p = c.below(s.size()); s.replace(p, 1, kTokens[c.below(static_cast<std::uint64_t>(kNTokens))]); } break;
    }
    switch (c.below(6)) {
      case 0: s.push_back(static_cast<char>("\xC2\xCE\xE2\xF0\xC3\xEF"[c.below(6)])); break;       // lone lead byte at the end
      case 1: { size_t i = s.size(); while (i > 0 && (static_cast<unsigned char>(s[i - 1]) & 0xC0) == 0x80) --i; if (i > 0 && i < s.size()) s.resize(i); } break;  // cut continuation bytes
      case 2: s.insert(0, 1, static_cast<char>(0x80 + c.below(64))); break;                             // stray continuation byte first
      default: break;
    }
    return s;
  }
  switch (c.below(8)) {
    case 0: if (!s.empty()) s[c.below(s.size())] = static_cast<char>(c.next() & 0xFF); break;
    case 1: if (!s.empty()) s.erase(c.below(s.size()), 1); break;
    case 2: s.insert(c.below(s.size() + 1), 1, static_cast<char>(c.next() & 0xFF)); break;
    case 3: s.push_back('\0'); break;
    case 4: s.insert(0, 1, ' '); break;
    case 5: s.push_back(' '); break;
    case 6: for (auto& ch : s) if (ch >= 'a' && ch <= 'z' && c.below(2)) ch = static_cast<char>(ch - 32); break;
    default: s += s; break;
  }
  return s;
}

inline std::string number_like(Ctx& c) {
  if (c.huge > 0 && c.huge_strings) return arbitrary_bytes(c);
  switch (c.below(6)) {
    case 0: case 1: return kNumberGrammar[c.below(static_cast<std::uint64_t>(kNumberGrammarSize))];
    case 2: return mutate(c, kNumberGrammar[c.below(static_cast<std::uint64_t>(kNumberGrammarSize))]);
    case 3: {
      char b[128];
      static const char* fmts[] = {"%.17Lg", "%Le", "%Lf", "%La", "%.40Lg", "%.0Lf"};
      std::snprintf(b, sizeof b, fmts[c.below(6)], finite_value<long double>(c));
      return b;
    }
    case 4: {
      char b[128];
      std::snprintf(b, sizeof b, "%.9g", static_cast<double>(finite_value<float>(c)));
      return mutate(c, b);
    }
    default: return arbitrary_bytes(c);
  }
}

// A view of exactly s.size() bytes at offset 0..7 of an exact-sized heap buffer: no terminating NUL behind it and no
// 8-byte alignment, unlike a std::string -- an over-read is an ASan report, a word-wise load a UBSan alignment report.
inline std::string_view exact_view(Ctx& c, const std::string& s) {
  if (c.huge > 0) return huge_view(c.huge);
  const size_t off = static_cast<size_t>(c.next() % 8);
  std::unique_ptr<char[]>& b = c.sv_buf[c.sv_used++ % 4];
  const size_t total = off + s.size();
  b.reset(new char[total ? total : 1]);
  if (!s.empty()) std::memcpy(b.get() + off, s.data(), s.size());
  return std::string_view(b.get() + off, s.size());
}

inline std::string short_string(std::uint64_t idx) {  // index into the enumeration of all byte strings of length 0, 1, 2
  if (idx == 0) return std::string();
  if (idx <= 256) return std::string(1, static_cast<char>(idx - 1));
  idx -= 257;
  std::string s(2, '\0');
  s[0] = static_cast<char>((idx >> 8) & 0xFF);
  s[1] = static_cast<char>(idx & 0xFF);
  return s;
}                       // numeric grammar, printed values, mutations

// ---------------------------------------------------------------------------------- Maker / consume
template <class X, class Enable = void>
struct Maker;  // specialisations: arithmetic, enums (generated), containers, PhQ types (generated)

// Correlated operands: in a quarter of the executions (decided by the op's seed) every class-type operand of
// a type that was already made in this execution is a copy of the first one -- or, for the second request,
// its negation where the type can be scaled by -1 -- so relations *between* arguments are reached: equal or
// exactly antiparallel vectors, a quantity compared with or divided by itself, identical tensors.
template <class, class = void> struct is_raw_vector : std::false_type {};   // PhQ::Vector / PhQ::PlanarVector (not quantities)
template <class X> struct is_raw_vector<X, std::void_t<decltype(std::declval<const X&>().MagnitudeSquared()), decltype(X::Zero())>>
  : std::integral_constant<bool, !std::is_same<decltype(std::declval<const X&>().MagnitudeSquared()), void>::value> {};
template <class, class = void> struct has_Value_early : std::false_type {};
template <class X> struct has_Value_early<X, std::void_t<decltype(std::declval<const X&>().Value())>> : std::true_type {};

// Optimised build: operands do not sit at the start of a 16-byte aligned local but behind a pad of their own alignment
// (a double or a Vector<double> at an address that is 8 modulo 16, a float quantity at 4 modulo 16) -- where a class
// member, the second element of an array or of a std::vector would be.
template <class X>
struct Off {
  alignas(16) unsigned char pad[(alignof(X) < 16) ? alignof(X) : 16];
  X value;
  explicit Off(X v) : pad(), value(std::move(v)) {}
  template <class... A>
  explicit Off(std::in_place_t, A&&... a) : pad(), value(std::forward<A>(a)...) {}
};

template <class X>
inline X make(Ctx& c) {
  if constexpr (std::is_class<X>::value && std::is_copy_constructible<X>::value && !std::is_same<X, std::string>::value &&
                !std::is_same<X, std::string_view>::value) {
    if (c.correlated) {
      static thread_local std::optional<X> first;
      static thread_local std::uint64_t owner = 0;
      static thread_local int uses = 0;
      if (owner != c.exec_id) { owner = c.exec_id; first.reset(); uses = 0; }
      if (!first.has_value()) { first.emplace(Maker<X>::make(c)); return *first; }
      ++uses;
      if constexpr (is_raw_vector<X>::value && !has_Value_early<X>::value) {
        if (uses == 1 && (c.seed >> 17) & 1) return *first * static_cast<decltype(first->MagnitudeSquared())>(-1);   // exactly antiparallel
      }
      return *first;
    }
  }
  return Maker<X>::make(c);
}

template <class T>
struct Maker<T, std::enable_if_t<std::is_floating_point<T>::value>> {
  static T make(Ctx& c) { return finite_value<T>(c); }
};
template <class T>
struct Maker<T, std::enable_if_t<std::is_integral<T>::value && !std::is_same<T, bool>::value>> {
  static T make(Ctx& c) { return static_cast<T>(static_cast<int>(c.below(9)) - 4); }
};
template <>
struct Maker<bool> {
  static bool make(Ctx& c) { return c.below(2) != 0; }
};
template <class T, std::size_t N>
struct Maker<std::array<T, N>> {
  static std::array<T, N> make(Ctx& c) {
    std::array<T, N> a{};
    for (auto& x : a) x = vrt::make<T>(c);
    return a;
  }
};
template <class T>
struct Maker<std::vector<T>> {
  static std::vector<T> make(Ctx& c) {
    static const int sizes[] = {0, 0, 1, 2, 3, 4, 7, 8, 9, 16, 33, 64, 255, 1000, 4097};
    size_t n = static_cast<size_t>(sizes[c.below((c.small_sizes || c.below(6)) ? 12 : 15)]);
    const std::uint64_t how = c.small_sizes ? 99 : c.below(32);
    if (how < 3 && kNInterestingSizes > 0) n = static_cast<size_t>(kInterestingSizes[c.below(static_cast<std::uint64_t>(kNInterestingSizes))]);
    else if (how == 3) n = static_cast<size_t>(std::exp2(static_cast<double>(c.below(1700)) / 100.0));   // log-uniform up to ~131 000
    std::vector<T> v(n);
    if (n > 4096) {  // long sequences: a few distinct values repeated, so that set-up stays cheap
      T pool[8];
      for (auto& x : pool) x = vrt::make<T>(c);
      for (size_t i = 0; i < n; ++i) v[i] = pool[i & 7];
    } else {
      for (auto& x : v) x = vrt::make<T>(c);
    }
    return v;
  }
};
template <>
struct Maker<std::string> {
  static std::string make(Ctx& c) { return arbitrary_bytes(c); }
};

// enum support (specialised by generated code): enumerator list and spelling literals
template <class E>
struct EnumInfo {
  static constexpr bool known = false;
};
template <class E>
inline bool enum_valid(E e) {
  if constexpr (EnumInfo<E>::known) {
    for (int i = 0; i < EnumInfo<E>::count; ++i)
      if (EnumInfo<E>::all[i] == e) return true;
    return false;
  } else {
    return true;
  }
}
template <class E>
struct Maker<E, std::enable_if_t<std::is_enum<E>::value>> {
  static E make(Ctx& c) {
    static_assert(EnumInfo<E>::known, "enumeration not catalogued");
    return EnumInfo<E>::all[c.select(static_cast<std::uint64_t>(EnumInfo<E>::count))];
  }
};

template <class, class = void> struct has_Value : std::false_type {};
template <class X> struct has_Value<X, std::void_t<decltype(std::declval<const X&>().Value())>> : std::true_type {};
template <class, class = void> struct has_begin : std::false_type {};
template <class X> struct has_begin<X, std::void_t<decltype(std::declval<const X&>().begin())>> : std::true_type {};
template <class, class = void> struct has_Print : std::false_type {};
template <class X> struct has_Print<X, std::void_t<decltype(std::declval<const X&>().Print())>> : std::true_type {};
template <class X> struct is_optional : std::false_type {};
template <class X> struct is_optional<std::optional<X>> : std::true_type {};
// PhQ::Vector & co expose their components as std::array through one of these accessors
#define VRT_HAS(name)                                                                               \
  template <class, class = void> struct has_##name : std::false_type {};                            \
  template <class X> struct has_##name<X, std::void_t<decltype(std::declval<const X&>().name())>> : std::true_type {};
VRT_HAS(x_y)
VRT_HAS(x_y_z)
VRT_HAS(xx_xy_xz_yy_yz_zz)
VRT_HAS(xx_xy_xz_yx_yy_yz_zx_zy_zz)
VRT_HAS(GetType)
#undef VRT_HAS

// visits every number reachable from a result: fn(long double)
template <class X, class F>
inline void visit_numbers(const X& x, F&& fn) {
  if constexpr (std::is_floating_point<X>::value) {
    fn(static_cast<long double>(x));
  } else if constexpr (is_optional<X>::value) {
    if (x.has_value()) visit_numbers(*x, fn);
  } else if constexpr (has_xx_xy_xz_yx_yy_yz_zx_zy_zz<X>::value) {
    for (auto v : x.xx_xy_xz_yx_yy_yz_zx_zy_zz()) fn(static_cast<long double>(v));
  } else if constexpr (has_xx_xy_xz_yy_yz_zz<X>::value) {
    for (auto v : x.xx_xy_xz_yy_yz_zz()) fn(static_cast<long double>(v));
  } else if constexpr (has_x_y_z<X>::value) {
    for (auto v : x.x_y_z()) fn(static_cast<long double>(v));
  } else if constexpr (has_x_y<X>::value) {
    for (auto v : x.x_y()) fn(static_cast<long double>(v));
  } else if constexpr (has_Value<X>::value) {
    visit_numbers(x.Value(), fn);
  } else if constexpr (has_begin<X>::value && !std::is_convertible<X, std::string_view>::value) {
    for (const auto& v : x) visit_numbers(v, fn);
  }
}
template <class X>
inline bool all_finite(const X& x) {
  bool ok = true;
  visit_numbers(x, [&ok](long double v) { if (!std::isfinite(v)) ok = false; });
  return ok;
}

// canonicalise a result into the context's hash.  Numbers are formatted (not memcpy'd) so that
// memcheck reports a result that depends on an uninitialised value.
template <class X>
inline void consume(Ctx& c, const X& x) {
  if constexpr (std::is_same<X, bool>::value) {
    c.bytes(x ? "T" : "F", 1);
  } else if constexpr (std::is_floating_point<X>::value) {
    char b[96];
    int n = std::snprintf(b, sizeof b, "%La;", static_cast<long double>(x));
    c.bytes(b, static_cast<size_t>(n));
    if (!std::isfinite(x)) c.nonfinite_result = true;
  } else if constexpr (std::is_integral<X>::value) {
    char b[32];
    int n = std::snprintf(b, sizeof b, "%lld;", static_cast<long long>(x));
    c.bytes(b, static_cast<size_t>(n));
  } else if constexpr (std::is_enum<X>::value) {
    if (!enum_valid(x)) { c.invalid_enum = true; c.invalid_enum_what = __PRETTY_FUNCTION__; }
    char b[32];
    int n = std::snprintf(b, sizeof b, "e%lld;", static_cast<long long>(x));
    c.bytes(b, static_cast<size_t>(n));
  } else if constexpr (std::is_convertible<const X&, std::string_view>::value) {
    std::string_view s(x);
    if (s.size() > (static_cast<size_t>(1) << 20)) {  // huge text: the ends and the length
      c.bytes(s.data(), 4096);
      c.bytes(s.data() + s.size() - 4096, 4096);
      consume(c, s.size());
    } else {
      c.bytes(s.data(), s.size());
    }
    c.bytes("|", 1);
    if (c.text.size() < 256) c.text.append(s.substr(0, 256 - c.text.size()));
  } else if constexpr (is_optional<X>::value) {
    if (x.has_value()) { c.bytes("S", 1); consume(c, *x); } else { c.bytes("N", 1); }
  } else if constexpr (has_xx_xy_xz_yx_yy_yz_zx_zy_zz<X>::value) {
    for (auto v : x.xx_xy_xz_yx_yy_yz_zx_zy_zz()) consume(c, v);
  } else if constexpr (has_xx_xy_xz_yy_yz_zz<X>::value) {
    for (auto v : x.xx_xy_xz_yy_yz_zz()) consume(c, v);
  } else if constexpr (has_x_y_z<X>::value) {
    for (auto v : x.x_y_z()) consume(c, v);
  } else if constexpr (has_x_y<X>::value) {
    for (auto v : x.x_y()) consume(c, v);
  } else if constexpr (has_Value<X>::value) {
    consume(c, x.Value());
  } else if constexpr (has_begin<X>::value) {
    // long sequences: the ends and the length (every element of a 100 000-element vector would dominate the run)
    std::size_t n = 0, i = 0;
    for (const auto& v : x) { (void)v; ++n; }
    for (const auto& v : x) { if (i < 192 || i + 192 >= n) consume(c, v); ++i; }
    consume(c, n);
  } else if constexpr (has_Print<X>::value) {
    consume(c, x.Print());  // Dimensions, models
    if constexpr (has_GetType<X>::value) consume(c, x.GetType());
  } else {
    c.bytes("?", 1);
  }
}

// A result that consume() has no canonical form for but that can be inserted into a std::ostream (a stream manipulator
// object): insert it into the op's stream, as its user would.
template <class X, class = void> struct is_streamable : std::false_type {};
template <class X> struct is_streamable<X, std::void_t<decltype(std::declval<std::ostream&>() << std::declval<const X&>())>> : std::true_type {};
template <class X>
constexpr bool consumable() {
  return std::is_arithmetic<X>::value || std::is_enum<X>::value || std::is_convertible<const X&, std::string_view>::value || is_optional<X>::value ||
         has_xx_xy_xz_yx_yy_yz_zx_zy_zz<X>::value || has_xx_xy_xz_yy_yz_zz<X>::value || has_x_y_z<X>::value || has_x_y<X>::value || has_Value<X>::value ||
         has_begin<X>::value || has_Print<X>::value;
}
template <class X>
inline void consume_or_stream(Ctx& c, const X& x) {
  if constexpr (consumable<X>()) {
    consume(c, x);
  } else if constexpr (is_streamable<X>::value) {
    if (c.os != nullptr) {
      { Count k; (*c.os) << x; }
      consume(c, static_cast<int>(c.os->rdstate()));
    }
  } else {
    c.bytes("?", 1);
  }
}

// ---------------------------------------------------------------------------------- constant-initialised literal objects (C19)
struct ClitHash { std::uint64_t h; long len; };
template <class X>
inline ClitHash hash_of(const X& x) {
  Ctx c;
  consume(c, x);
  return ClitHash{c.h, c.result_len};
}
template <class T>
inline T launder(T x) {
  volatile T v = x;
  return v;
}
struct ClitEntry {
  const char* name;
  ClitHash (*object)();   // hash of the namespace-scope object (initialised before main, or at compile time)
  ClitHash (*runtime)();  // hash of the same expression on run-time operands
};
void clit_mark(char c, const char* name);
void register_clits(const ClitEntry* entries, int count);
struct ClitMark { ClitMark(char c, const char* name) { clit_mark(c, name); } };
struct ClitRegistrar { ClitRegistrar(const ClitEntry* e, int n) { register_clits(e, n); } };

// ---------------------------------------------------------------------------------- op registry
using OpFn = void (*)(Ctx&, int);
struct OpEntry {
  const char* name;  // stable instance name (used in plans and replay files)
  OpFn fn;
  int which;
  int flags;  // bit0: uses the stream; bit1: parser (must never throw); bit2/3: text operands
};
constexpr int kUsesStream = 1;
constexpr int kParser = 2;
constexpr int kText = 4;         // takes std::string_view / std::string operands (also run with huge operands)
constexpr int kTextString = 8;
constexpr int kManipulator = 16; // the result is inserted into the op's stream and changes what later insertions print   // ... only as std::string (the huge operand has to be a real copy)
struct OpTable {
  const OpEntry* entries;
  int count;
};
void run_exit_queue();  // defined by the C20 runtime: runs ops queued for static destruction time
void register_ops(const OpEntry* entries, int count);         // called by generated TUs' registrars (ordinary objects)
void register_ops_inline(const OpEntry* entries, int count);  // same, from C++17 inline-variable registrars (C19 API sweep)

}  // namespace vrt
