"""Offline calibration: finds op instances that cannot be compiled on the current tree because of
compile-time defects in the library that no listed property covers (e.g. Time<float>'s private
constructor names the wrong base class), and writes them to sim/c20_exclude.json.
Run:  python3 -m sim.c20_calibrate"""
import json, os, re, sys
from . import common
from .common import run, pmap, INCLUDE
from .catalogue import Catalogue
from .c20_gen import HarnessGen, TSHORT

SIMDIR = os.path.dirname(os.path.abspath(__file__))
EXCLUDE_FILE = os.path.join(SIMDIR, "c20_exclude.json")
TLONG = {"float": "f", "double": "d", "long double": "l"}


def syntax(work, fn):
    rc, out, err = run(["g++", "-std=c++17", "-fsyntax-only", "-I" + INCLUDE, "-I" + work, os.path.join(work, fn)], timeout=900)
    return rc, err.decode(errors="replace")


def make_pch(work):
    import shutil
    shutil.copy(os.path.join(SIMDIR, "c20_rt.hpp"), os.path.join(work, "c20_rt.hpp"))
    rc, out, err = run(["g++", "-std=c++17", "-I" + INCLUDE, "-I" + work, "-x", "c++-header", os.path.join(work, "c20_prelude.hpp"),
                        "-o", os.path.join(work, "c20_prelude.hpp.gch")], timeout=900)
    if rc != 0:
        print(err.decode(errors="replace")[-3000:])
        raise SystemExit(2)


def suspects_from(err):
    sus = set()
    for m in re.finditer(r"PhQ::(\w+)<NumericType>::[^\n]*\[with NumericType = (float|double|long double)", err):
        sus.add((m.group(1), TLONG[m.group(2)]))
    for m in re.finditer(r"error: [^\n]*PhQ::(\w+)<(float|double|long double)>", err):
        sus.add((m.group(1), TLONG[m.group(2)]))
    for m in re.finditer(r"include/PhQ/(\w+)\.hpp:\d+:\d+: error", err):
        for t in "fdl":
            sus.add((m.group(1), t))
    return sus


def main():
    cat = Catalogue()
    work = common.scratch("c20cal")
    exclude = {}
    for rnd in range(6):
        g = HarnessGen(cat, exclude=set(exclude))
        open(os.path.join(work, "c20_prelude.hpp"), "w").write(g.prelude())
        if rnd == 0:
            make_pch(work)
        tus = g.translation_units(48)
        for fn, text in tus.items():
            open(os.path.join(work, fn), "w").write(text)
        res = pmap(lambda fn: (fn,) + syntax(work, fn), sorted(tus))
        bad = [(fn, err) for fn, rc, err in res if rc != 0]
        print("round %d: %d instances, %d TUs fail" % (rnd, len(g.instances), len(bad)), flush=True)
        if not bad:
            break
        sus = set()
        for fn, err in bad:
            sus |= suspects_from(err)
        print("  suspects:", sorted(sus), flush=True)
        cands = []
        for name in g.instances:
            m = re.match(r"^([\w:]+)<([fdl])>\|(.*)$", name)
            if not m:
                continue
            t = m.group(2)
            text = g.meta.get(name, name)
            for (sc, st) in sus:
                if st == t and re.search(r"\b%s\b" % sc, text):
                    cands.append(name); break
        # also every member whose *return type* mentions a suspect: we only have names, so add all ops of
        # classes whose header mentions the suspect is too broad; instead test ops of all classes for that T
        # whose generated code mentions the suspect type
        print("  candidates: %d" % len(cands), flush=True)

        def test(name):
            text = g.single_op_tu(name)
            if text is None:
                return name, None
            fn = "single_%s.cpp" % common.sha(name)[:16]
            open(os.path.join(work, fn), "w").write(text)
            rc, err = syntax(work, fn)
            os.unlink(os.path.join(work, fn))
            first = ""
            if rc != 0:
                mm = re.search(r"error: ([^\n]*)", err)
                first = mm.group(1)[:160] if mm else "compile error"
            return name, (rc, first)
        results = pmap(test, cands)
        new = 0
        for name, r in results:
            if r and r[0] != 0:
                exclude[name] = r[1]; new += 1
        print("  excluded %d new ops (total %d)" % (new, len(exclude)), flush=True)
        if new == 0:
            # errors not attributable to a candidate: fall back to the ops named in 'required from here'
            for fn, err in bad:
                lines = open(os.path.join(work, fn)).read().split("\n")
                for m in re.finditer(r"%s:(\d+):\d+:\s+required from here" % re.escape(fn), err):
                    ln = int(m.group(1)) - 1
                    mm = re.search(r"case (\d+):", lines[ln]) if ln < len(lines) else None
                    print("   unattributed error at %s:%d %s" % (fn, ln + 1, lines[ln][:100] if ln < len(lines) else ""))
            print(bad[0][1][:3000])
            return 1
    with open(EXCLUDE_FILE, "w") as f:
        json.dump({"note": "op instances that do not compile on the pinned tree because of compile-time library defects outside C20's scope; regenerate with python3 -m sim.c20_calibrate",
                   "excluded": exclude}, f, indent=1, sort_keys=True)
    print("wrote %s: %d exclusions" % (EXCLUDE_FILE, len(exclude)))
    return 0


if __name__ == "__main__":
    sys.exit(main())
