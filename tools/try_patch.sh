#!/bin/bash
# tools/try_patch.sh <patch.diff> <C19|C20> [extra env...]  -- runs the quick check against a patched SCRATCH worktree of /repo
# (never /repo itself, so that background runs that compile from /repo are not disturbed)
set -u
patch="$1"; prop="$2"; shift 2
wt=/var/tmp/phq-try-wt.$$
git -C /repo worktree add --detach "$wt" HEAD >/dev/null 2>&1 || exit 2
trap 'git -C /repo worktree remove --force "$wt" >/dev/null 2>&1; rm -rf /var/tmp/phq-try-ev.$$' EXIT
git -C "$wt" apply "$patch" || { echo "patch does not apply"; exit 2; }
env VERIF_REPO="$wt" VERIF_EVIDENCE_DIR=/var/tmp/phq-try-ev.$$ VERIF_REPLAY_DIR=/var/tmp/phq-try-ev.$$/replays "$@" /verif/check "$prop" --tier quick
