#!/usr/bin/env python3
"""Runs the quick check of the relevant property against every seeded change, on scratch worktrees
(never on /repo itself), and writes seeded/MATRIX.json.  Usage: tools/seeded_matrix.py [--jobs N] [id ...]
The two unchanged-tree entries run first, one after the other; the seeded changes then run N at a time
(default 2; their wall times are therefore those of a shared machine)."""
import json, os, subprocess, sys, time, tempfile, shutil, threading
VERIF = os.path.dirname(os.path.dirname(os.path.abspath(__file__)))
WT = "/var/tmp/phq-seeded-wt"


def sh(cmd, **kw):
    return subprocess.run(cmd, shell=True, stdout=subprocess.PIPE, stderr=subprocess.STDOUT, text=True, **kw)


def run_entry(name, wt, scratch):
    env = dict(os.environ, VERIF_REPO=wt, VERIF_EVIDENCE_DIR=os.path.join(scratch, "ev"), VERIF_REPLAY_DIR=os.path.join(scratch, "rp"))
    props = None
    if name.startswith("(unchanged"):
        prop, patch = name.split("/")[1], None
    else:
        meta = json.load(open(os.path.join(VERIF, "seeded", name, "meta.json")))
        prop, patch = meta["property"], os.path.join(VERIF, "seeded", name, "patch.diff")
        if prop not in ("C19", "C20"):
            props = ["C19", "C20"]      # benign changes (and the one judged out of scope): both checks must stay quiet
    sh("git -C %s checkout -- . && git -C %s clean -fdq" % (wt, wt))
    if patch:
        a = sh("git -C %s apply %s" % (wt, patch))
        if a.returncode:
            return {"error": "patch does not apply: " + a.stdout[-300:]}
    t = time.time()
    res = {}
    for pr in (props or [prop]):
        r = subprocess.run([os.path.join(VERIF, "check"), pr, "--tier", "quick"], cwd=VERIF, env=env, stdout=subprocess.PIPE, stderr=subprocess.STDOUT, text=True)
        lines = r.stdout.splitlines()
        classes = [l.strip()[len("violation class "):].split(": ")[0] for l in lines if l.startswith("violation class")]
        res[pr] = {"exit": r.returncode, "violation_lines": sum(1 for l in lines if l.startswith("VIOLATION ")),
                   "known_finding_lines": sum(1 for l in lines if l.startswith("KNOWN-FINDING")), "classes": classes[:8]}
    sh("git -C %s checkout -- . && git -C %s clean -fdq" % (wt, wt))
    if props:
        return {"expect": "no alarm", "checks": res, "wall_s": round(time.time() - t)}
    return dict(res[prop], property=prop, wall_s=round(time.time() - t))


def main(argv):
    jobs = 2
    if argv[:1] == ["--jobs"]:
        jobs, argv = int(argv[1]), argv[2:]
    ids = argv
    wts = ["%s.%d" % (WT, k) for k in range(jobs)]
    for wt in wts:
        sh("git -C /repo worktree remove --force %s" % wt)
        r = sh("git -C /repo worktree add --detach %s HEAD" % wt)
        if r.returncode:
            print(r.stdout); return 2
    scratch = tempfile.mkdtemp(prefix="phq-matrix.", dir="/var/tmp")
    out = {}
    mpath = os.path.join(VERIF, "seeded", "MATRIX.json")
    if os.path.exists(mpath) and ids:
        out = json.load(open(mpath))
    names = ids or sorted(d for d in os.listdir(os.path.join(VERIF, "seeded")) if os.path.isdir(os.path.join(VERIF, "seeded", d)))
    lock = threading.Lock()

    def record(name, res):
        with lock:
            out[name] = res
            print(name, res, flush=True)
            json.dump(out, open(mpath, "w"), indent=1, sort_keys=True)
    if not ids:
        for name in ("(unchanged tree)/C19", "(unchanged tree)/C20"):
            record(name, run_entry(name, wts[0], os.path.join(scratch, "s0")))
    queue = list(names)

    def worker(k):
        while True:
            with lock:
                if not queue:
                    return
                name = queue.pop(0)
            record(name, run_entry(name, wts[k], os.path.join(scratch, "s%d" % k)))
    threads = [threading.Thread(target=worker, args=(k,)) for k in range(jobs)]
    for t in threads:
        t.start()
    for t in threads:
        t.join()
    for wt in wts:
        sh("git -C /repo worktree remove --force %s" % wt)
    shutil.rmtree(scratch, ignore_errors=True)
    return 0


if __name__ == "__main__":
    sys.exit(main(sys.argv[1:]))
